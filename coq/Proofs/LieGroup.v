(* C03: group laws, matrix homomorphism, point action, validity over histories (over R). *)
From Coq Require Import Reals Lra Psatz List Nsatz.
Import ListNotations.
From PV Require Import Base.Num Base.RTac Model.LieGroup.
Local Open Scope R_scope.
#[local] Remove Hints NumQ NumZ : typeclass_instances.

Ltac lie_unfold :=
  cbv [SO3_mul SO3_inv SO3_act SO3_id SO3_Adj SO3_matrix SE3_mul SE3_inv SE3_act SE3_id
       RxSO3_mul RxSO3_inv RxSO3_act RxSO3_id RxSO3_matrix Sim3_mul Sim3_inv Sim3_act Sim3_id
       SO3_act4 SE3_act4 RxSO3_act4 Sim3_act4 matrix4 trans4 e4 mv4 mm4 block4
       SO3_AdjXa SO3_AdjTXa SE3_AdjXa SE3_AdjTXa RxSO3_AdjXa RxSO3_AdjTXa Sim3_AdjXa Sim3_AdjTXa
       vadd vsub vneg vscale vdot vcross vzero vx vy vz v3 qv qw qnorm2
       m3 mr0 mr1 mr2 mvmul mcol mtrans mmul3 madd3 mscale3 mid3 mzero3 skew mdet3
       fst snd] in *;
  num_unfold.
Ltac lie_ring := intros; destruct_tuples; lie_unfold; split_pairs; ring.
Ltac lie_field := intros; destruct_tuples; lie_unfold; split_pairs; field; auto.

Notation quatR := (@quat R).
Notation vec3R := (@vec3 R).
Notation vec4R := (@vec4 R).
Notation se3R := (@se3elt R).
Notation rxso3R := (@rxso3elt R).
Notation sim3R := (@sim3elt R).
Definition unitq (q : quatR) : Prop := qnorm2 q = 1.

(* ---------------- associativity (no hypotheses) *)
Lemma SO3_mul_assoc (X Y Z : quatR) : SO3_mul (SO3_mul X Y) Z = SO3_mul X (SO3_mul Y Z).
Proof. lie_ring. Qed.
Lemma qnorm2_mul (X Y : quatR) : qnorm2 (SO3_mul X Y) = qnorm2 X * qnorm2 Y.
Proof. lie_ring. Qed.
Lemma qnorm2_inv (X : quatR) : qnorm2 (SO3_inv X) = qnorm2 X.
Proof. lie_ring. Qed.
Lemma unitq_mul X Y : unitq X -> unitq Y -> unitq (SO3_mul X Y).
Proof. unfold unitq; intros H1 H2; rewrite qnorm2_mul, H1, H2; ring. Qed.
Lemma unitq_inv X : unitq X -> unitq (SO3_inv X).
Proof. unfold unitq; now rewrite qnorm2_inv. Qed.
Lemma unitq_id : unitq SO3_id.
Proof. unfold unitq. lie_ring. Qed.

(* homogeneous form q p q^* of the action: multiplicative without any hypothesis *)
Definition act_h (X : quatR) (p : vec3R) : vec3R :=
  let uv := vcross (qv X) p in
  let uv := vadd uv uv in
  vadd (vadd (vscale (qnorm2 X) p) (vscale (qw X) uv)) (vcross (qv X) uv).
Lemma act_h_mul (X Y : quatR) (p : vec3R) : act_h (SO3_mul X Y) p = act_h X (act_h Y p).
Proof. unfold act_h. lie_ring. Qed.
Lemma act_h_diff (X : quatR) (p : vec3R) : act_h X p = vadd (SO3_act X p) (vscale (qnorm2 X - 1) p).
Proof. unfold act_h. lie_ring. Qed.
Lemma act_eq_h (X : quatR) (p : vec3R) : unitq X -> SO3_act X p = act_h X p.
Proof. intros H. rewrite act_h_diff, H. lie_ring. Qed.

(* the point action of a product (both factors unit) *)
Lemma SO3_act_mul (X Y : quatR) (p : vec3R) : unitq X -> unitq Y ->
  SO3_act (SO3_mul X Y) p = SO3_act X (SO3_act Y p).
Proof.
  intros HX HY. rewrite (act_eq_h (SO3_mul X Y)) by (now apply unitq_mul).
  rewrite (act_eq_h Y) by assumption. rewrite (act_eq_h X) by assumption. apply act_h_mul.
Qed.

Lemma SO3_act_linear (X : quatR) (p r : vec3R) (k : R) :
  SO3_act X (vadd (vscale k p) r) = vadd (vscale k (SO3_act X p)) (SO3_act X r).
Proof. lie_ring. Qed.

Lemma SE3_mul_assoc (X Y Z : se3R) : unitq (snd X) -> unitq (snd Y) ->
  SE3_mul (SE3_mul X Y) Z = SE3_mul X (SE3_mul Y Z).
Proof.
  intros HX HY. unfold SE3_mul. cbn [fst snd]. apply pair_eq; [|apply SO3_mul_assoc].
  rewrite SO3_act_mul by assumption.
  destruct X as [tx qx], Y as [ty qy], Z as [tz qz]. cbn [fst snd].
  generalize (SO3_act qy tz). intros u. lie_ring.
Qed.

Lemma RxSO3_mul_assoc (X Y Z : rxso3R) : RxSO3_mul (RxSO3_mul X Y) Z = RxSO3_mul X (RxSO3_mul Y Z).
Proof. lie_ring. Qed.

Lemma RxSO3_act_mul (X Y : rxso3R) p : unitq (fst X) -> unitq (fst Y) ->
  RxSO3_act (RxSO3_mul X Y) p = RxSO3_act X (RxSO3_act Y p).
Proof.
  intros HX HY. unfold RxSO3_act, RxSO3_mul. cbn [fst snd]. rewrite SO3_act_mul by assumption.
  destruct X as [qx s], Y as [qy t]. cbn [fst snd].
  replace (SO3_act qx (vscale t (SO3_act qy p))) with (vscale t (SO3_act qx (SO3_act qy p))).
  - generalize (SO3_act qx (SO3_act qy p)). intros u. lie_ring.
  - generalize (SO3_act qy p). intros u. lie_ring.
Qed.

Lemma Sim3_mul_assoc (X Y Z : sim3R) : unitq (fst (snd X)) -> unitq (fst (snd Y)) ->
  Sim3_mul (Sim3_mul X Y) Z = Sim3_mul X (Sim3_mul Y Z).
Proof.
  intros HX HY. unfold Sim3_mul. cbn [fst snd]. apply pair_eq; [|apply RxSO3_mul_assoc].
  rewrite RxSO3_act_mul by assumption.
  destruct X as [tx qx], Y as [ty qy], Z as [tz qz]. cbn [fst snd].
  generalize (RxSO3_act qy tz). intros u. lie_ring.
Qed.

(* ---------------- identity *)
Lemma SO3_id_l X : SO3_mul SO3_id X = X.  Proof. lie_ring. Qed.
Lemma SO3_id_r X : SO3_mul X SO3_id = X.  Proof. lie_ring. Qed.
Lemma SE3_id_l X : SE3_mul SE3_id X = X.  Proof. lie_ring. Qed.
Lemma SE3_id_r X : SE3_mul X SE3_id = X.  Proof. lie_ring. Qed.
Lemma RxSO3_id_l X : RxSO3_mul RxSO3_id X = X.  Proof. lie_ring. Qed.
Lemma RxSO3_id_r X : RxSO3_mul X RxSO3_id = X.  Proof. lie_ring. Qed.
Lemma Sim3_id_l X : Sim3_mul Sim3_id X = X.  Proof. lie_ring. Qed.
Lemma Sim3_id_r X : Sim3_mul X Sim3_id = X.  Proof. lie_ring. Qed.
Lemma SO3_act_id p : SO3_act SO3_id p = p.  Proof. lie_ring. Qed.
Lemma SE3_act_id p : SE3_act SE3_id p = p.  Proof. lie_ring. Qed.
Lemma RxSO3_act_id p : RxSO3_act RxSO3_id p = p.  Proof. lie_ring. Qed.
Lemma Sim3_act_id p : Sim3_act Sim3_id p = p.  Proof. lie_ring. Qed.

(* ---------------- inverse (unit quaternion, non-zero scale) *)
Lemma SO3_inv_r X : unitq X -> SO3_mul X (SO3_inv X) = SO3_id.
Proof. unfold unitq. destruct X as [[[a b] c] d]. lie_unfold. intros H. split_pairs; nsatz. Qed.
Lemma SO3_inv_l X : unitq X -> SO3_mul (SO3_inv X) X = SO3_id.
Proof. unfold unitq. destruct X as [[[a b] c] d]. lie_unfold. intros H. split_pairs; nsatz. Qed.
Lemma SO3_act_inv X p : unitq X -> SO3_act (SO3_inv X) (SO3_act X p) = p.
Proof.
  intros H. rewrite <- SO3_act_mul by (auto using unitq_inv). rewrite SO3_inv_l by assumption. apply SO3_act_id.
Qed.
Lemma SO3_act_inv' X p : unitq X -> SO3_act X (SO3_act (SO3_inv X) p) = p.
Proof.
  intros H. rewrite <- SO3_act_mul by (auto using unitq_inv). rewrite SO3_inv_r by assumption. apply SO3_act_id.
Qed.

Lemma SE3_inv_r X : unitq (snd X) -> SE3_mul X (SE3_inv X) = SE3_id.
Proof.
  intros H. unfold SE3_mul, SE3_inv, SE3_id. cbn [fst snd]. apply pair_eq; [|now apply SO3_inv_r].
  destruct X as [t q]. cbn [fst snd] in *.
  assert (E : SO3_act q (vneg (SO3_act (SO3_inv q) t)) = vneg t).
  { rewrite <- (SO3_act_inv' q t H) at 2. generalize (SO3_act (SO3_inv q) t). intros u. lie_ring. }
  rewrite E. lie_ring.
Qed.
Lemma SE3_inv_l X : unitq (snd X) -> SE3_mul (SE3_inv X) X = SE3_id.
Proof.
  intros H. unfold SE3_mul, SE3_inv, SE3_id. cbn [fst snd]. apply pair_eq; [|now apply SO3_inv_l].
  destruct X as [t q]. cbn [fst snd] in *. generalize (SO3_act (SO3_inv q) t). intros u. lie_ring.
Qed.

Lemma RxSO3_inv_r X : unitq (fst X) -> snd X <> 0 -> RxSO3_mul X (RxSO3_inv X) = RxSO3_id.
Proof.
  intros H Hs. unfold RxSO3_mul, RxSO3_inv, RxSO3_id. cbn [fst snd]. apply pair_eq; [now apply SO3_inv_r|].
  num_unfold. field. exact Hs.
Qed.
Lemma RxSO3_inv_l X : unitq (fst X) -> snd X <> 0 -> RxSO3_mul (RxSO3_inv X) X = RxSO3_id.
Proof.
  intros H Hs. unfold RxSO3_mul, RxSO3_inv, RxSO3_id. cbn [fst snd]. apply pair_eq; [now apply SO3_inv_l|].
  num_unfold. field. exact Hs.
Qed.
Lemma RxSO3_act_inv' X p : unitq (fst X) -> snd X <> 0 -> RxSO3_act X (RxSO3_act (RxSO3_inv X) p) = p.
Proof.
  intros H Hs. unfold RxSO3_act, RxSO3_inv. cbn [fst snd]. destruct X as [q s]. cbn [fst snd] in *.
  replace (SO3_act q (vscale (one / s) (SO3_act (SO3_inv q) p)))
    with (vscale (one / s) (SO3_act q (SO3_act (SO3_inv q) p))).
  - rewrite SO3_act_inv' by assumption. destruct p as [[x y] z]. lie_unfold. split_pairs; field; exact Hs.
  - generalize (SO3_act (SO3_inv q) p). intros u. lie_ring.
Qed.
Lemma Sim3_inv_r X : unitq (fst (snd X)) -> snd (snd X) <> 0 -> Sim3_mul X (Sim3_inv X) = Sim3_id.
Proof.
  intros H Hs. unfold Sim3_mul, Sim3_inv, Sim3_id. cbn [fst snd]. apply pair_eq; [|now apply RxSO3_inv_r].
  destruct X as [t qs]. cbn [fst snd] in *.
  assert (E : RxSO3_act qs (vneg (RxSO3_act (RxSO3_inv qs) t)) = vneg t).
  { rewrite <- (RxSO3_act_inv' qs t H Hs) at 2. generalize (RxSO3_act (RxSO3_inv qs) t). intros u. lie_ring. }
  rewrite E. lie_ring.
Qed.
Lemma Sim3_inv_l X : unitq (fst (snd X)) -> snd (snd X) <> 0 -> Sim3_mul (Sim3_inv X) X = Sim3_id.
Proof.
  intros H Hs. unfold Sim3_mul, Sim3_inv, Sim3_id. cbn [fst snd]. apply pair_eq; [|now apply RxSO3_inv_l].
  destruct X as [t qs]. cbn [fst snd] in *. generalize (RxSO3_act (RxSO3_inv qs) t). intros u. lie_ring.
Qed.

(* ---------------- matrix(): blocks, action, homomorphism *)
Lemma SO3_Adj_is_matrix X : unitq X -> SO3_Adj X = SO3_matrix X.
Proof. unfold unitq. destruct X as [[[a b] c] d]. lie_unfold. intros H. split_pairs; nsatz. Qed.
Lemma SO3_act_is_matrix X p : SO3_act X p = mvmul (SO3_matrix X) p.
Proof. lie_ring. Qed.
Lemma RxSO3_act_is_matrix X p : RxSO3_act X p = mvmul (RxSO3_matrix X) p.
Proof. lie_ring. Qed.
Lemma RxSO3_matrix_blocks X : RxSO3_matrix X = mscale3 (snd X) (SO3_matrix (fst X)).
Proof. lie_ring. Qed.
Lemma SE3_matrix_blocks X : matrix4 SE3_act4 X = block4 (SO3_matrix (snd X)) (fst X).
Proof. lie_ring. Qed.
Lemma Sim3_matrix_blocks X : matrix4 Sim3_act4 X = block4 (mscale3 (snd (snd X)) (SO3_matrix (fst (snd X)))) (fst X).
Proof. lie_ring. Qed.
Lemma RxSO3_matrix4_blocks X : matrix4 RxSO3_act4 X = block4 (mscale3 (snd X) (SO3_matrix (fst X))) vzero.
Proof. lie_ring. Qed.
Lemma RxSO3_act4_is_matrix4 X p : RxSO3_act4 X p = mv4 (matrix4 RxSO3_act4 X) p.
Proof. lie_ring. Qed.
Lemma SE3_act4_is_matrix X p : SE3_act4 X p = mv4 (matrix4 SE3_act4 X) p.
Proof. lie_ring. Qed.
Lemma Sim3_act4_is_matrix X p : Sim3_act4 X p = mv4 (matrix4 Sim3_act4 X) p.
Proof. lie_ring. Qed.
Lemma SO3_act4_is_matrix X p : SO3_act4 X p = (mvmul (SO3_matrix X) (fst p), snd p).
Proof. lie_ring. Qed.
Lemma RxSO3_act4_is_matrix X p : RxSO3_act4 X p = (mvmul (RxSO3_matrix X) (fst p), snd p).
Proof. lie_ring. Qed.
Lemma SE3_act_is_act4 X p : (SE3_act X p, 1) = SE3_act4 X (p, 1).
Proof. lie_ring. Qed.
Lemma Sim3_act_is_act4 X p : (Sim3_act X p, 1) = Sim3_act4 X (p, 1).
Proof. lie_ring. Qed.

Lemma mmul3_cols (A : @mat3 R) (u v w : vec3R) :
  mmul3 A (mtrans (u, v, w)) = mtrans (mvmul A u, mvmul A v, mvmul A w).
Proof. lie_ring. Qed.
Lemma SO3_matrix_mul X Y : unitq X -> unitq Y -> SO3_matrix (SO3_mul X Y) = mmul3 (SO3_matrix X) (SO3_matrix Y).
Proof.
  intros HX HY. unfold SO3_matrix at 1 3. rewrite mmul3_cols. rewrite <- !SO3_act_is_matrix.
  rewrite !SO3_act_mul by assumption. reflexivity.
Qed.
Lemma RxSO3_matrix_mul X Y : unitq (fst X) -> unitq (fst Y) ->
  RxSO3_matrix (RxSO3_mul X Y) = mmul3 (RxSO3_matrix X) (RxSO3_matrix Y).
Proof.
  intros HX HY. unfold RxSO3_matrix at 1 3. rewrite mmul3_cols. rewrite <- !RxSO3_act_is_matrix.
  rewrite !RxSO3_act_mul by assumption. reflexivity.
Qed.
Lemma SE3_act_mul X Y p : unitq (snd X) -> unitq (snd Y) -> SE3_act (SE3_mul X Y) p = SE3_act X (SE3_act Y p).
Proof.
  intros HX H. unfold SE3_act, SE3_mul. cbn [fst snd]. rewrite SO3_act_mul by assumption.
  destruct X as [tx qx], Y as [ty qy]. cbn [fst snd].
  replace (SO3_act qx (vadd ty (SO3_act qy p))) with (vadd (SO3_act qx ty) (SO3_act qx (SO3_act qy p))).
  - generalize (SO3_act qx ty) (SO3_act qx (SO3_act qy p)). intros u v. lie_ring.
  - generalize (SO3_act qy p). intros u. lie_ring.
Qed.
Lemma Sim3_act_mul X Y p : unitq (fst (snd X)) -> unitq (fst (snd Y)) -> Sim3_act (Sim3_mul X Y) p = Sim3_act X (Sim3_act Y p).
Proof.
  intros HX H. unfold Sim3_act, Sim3_mul. cbn [fst snd]. rewrite RxSO3_act_mul by assumption.
  destruct X as [tx qx], Y as [ty qy]. cbn [fst snd].
  replace (RxSO3_act qx (vadd ty (RxSO3_act qy p))) with (vadd (RxSO3_act qx ty) (RxSO3_act qx (RxSO3_act qy p))).
  - generalize (RxSO3_act qx ty) (RxSO3_act qx (RxSO3_act qy p)). intros u v. lie_ring.
  - generalize (RxSO3_act qy p). intros u. lie_ring.
Qed.
(* 4x4: through the block form *)
Lemma mm4_blocks (A B : @mat3 R) (t u : vec3R) :
  mm4 (block4 A t) (block4 B u) = block4 (mmul3 A B) (vadd (mvmul A u) t).
Proof. lie_ring. Qed.
Lemma SE3_matrix_mul X Y : unitq (snd X) -> unitq (snd Y) ->
  matrix4 SE3_act4 (SE3_mul X Y) = mm4 (matrix4 SE3_act4 X) (matrix4 SE3_act4 Y).
Proof.
  intros HX HY. rewrite !SE3_matrix_blocks, mm4_blocks. unfold SE3_mul. cbn [fst snd].
  rewrite SO3_matrix_mul by assumption. rewrite <- SO3_act_is_matrix.
  f_equal. generalize (SO3_act (snd X) (fst Y)) (fst X). intros u v. lie_ring.
Qed.
Lemma RxSO3_matrix4_mul X Y : unitq (fst X) -> unitq (fst Y) ->
  matrix4 RxSO3_act4 (RxSO3_mul X Y) = mm4 (matrix4 RxSO3_act4 X) (matrix4 RxSO3_act4 Y).
Proof.
  intros HX HY. rewrite !RxSO3_matrix4_blocks, mm4_blocks. rewrite <- !RxSO3_matrix_blocks.
  rewrite RxSO3_matrix_mul by assumption. f_equal. generalize (RxSO3_matrix X). intros A. lie_ring.
Qed.
Lemma mscale3_mmul3 (s t : R) (A B : @mat3 R) : mmul3 (mscale3 s A) (mscale3 t B) = mscale3 (s * t) (mmul3 A B).
Proof. lie_ring. Qed.
Lemma Sim3_matrix_mul X Y : unitq (fst (snd X)) -> unitq (fst (snd Y)) ->
  matrix4 Sim3_act4 (Sim3_mul X Y) = mm4 (matrix4 Sim3_act4 X) (matrix4 Sim3_act4 Y).
Proof.
  intros HX HY. rewrite !Sim3_matrix_blocks, mm4_blocks. unfold Sim3_mul, RxSO3_mul. cbn [fst snd].
  rewrite SO3_matrix_mul by assumption. rewrite mscale3_mmul3.
  f_equal. rewrite <- RxSO3_matrix_blocks, <- RxSO3_act_is_matrix.
  generalize (RxSO3_act (snd X) (fst Y)) (fst X). intros u v. lie_ring.
Qed.

(* ---------------- validity over arbitrarily long histories ---------------- *)
Section History.
Variable G : Type.
Variable gmul : G -> G -> G.
Variable ginv : G -> G.
Variable valid : G -> Prop.
Hypothesis valid_mul : forall X Y, valid X -> valid Y -> valid (gmul X Y).
Hypothesis valid_inv : forall X, valid X -> valid (ginv X).

Inductive hop := MulL (Y : G) | MulR (Y : G) | InvOp.
Definition hstep (X : G) (o : hop) : G :=
  match o with MulL Y => gmul Y X | MulR Y => gmul X Y | InvOp => ginv X end.
Definition valid_op (o : hop) : Prop :=
  match o with MulL Y => valid Y | MulR Y => valid Y | InvOp => True end.

Lemma valid_step X o : valid X -> valid_op o -> valid (hstep X o).
Proof. destruct o; cbn; auto. Qed.
Theorem valid_history : forall ops X, valid X -> Forall valid_op ops -> valid (fold_left hstep ops X).
Proof.
  induction ops as [|o ops IH]; cbn; intros X HX Hops; [exact HX|].
  inversion Hops; subst. apply IH; [apply valid_step; assumption | assumption].
Qed.
End History.

Definition valid_SO3 (X : quatR) := unitq X.
Definition valid_SE3 (X : se3R) := unitq (snd X).
Definition valid_RxSO3 (X : rxso3R) := unitq (fst X) /\ 0 < snd X.
Definition valid_Sim3 (X : sim3R) := unitq (fst (snd X)) /\ 0 < snd (snd X).

Lemma valid_SE3_mul X Y : valid_SE3 X -> valid_SE3 Y -> valid_SE3 (SE3_mul X Y).
Proof. unfold valid_SE3, SE3_mul; cbn [fst snd]. apply unitq_mul. Qed.
Lemma valid_SE3_inv X : valid_SE3 X -> valid_SE3 (SE3_inv X).
Proof. unfold valid_SE3, SE3_inv; cbn [fst snd]. apply unitq_inv. Qed.
Lemma valid_RxSO3_mul X Y : valid_RxSO3 X -> valid_RxSO3 Y -> valid_RxSO3 (RxSO3_mul X Y).
Proof.
  unfold valid_RxSO3, RxSO3_mul; cbn [fst snd]. intros [H1 H2] [H3 H4]. split; [now apply unitq_mul|].
  num_unfold. now apply Rmult_lt_0_compat.
Qed.
Lemma valid_RxSO3_inv X : valid_RxSO3 X -> valid_RxSO3 (RxSO3_inv X).
Proof.
  unfold valid_RxSO3, RxSO3_inv; cbn [fst snd]. intros [H1 H2]. split; [now apply unitq_inv|].
  num_unfold. unfold Rdiv. rewrite Rmult_1_l. now apply Rinv_0_lt_compat.
Qed.
Lemma valid_Sim3_mul X Y : valid_Sim3 X -> valid_Sim3 Y -> valid_Sim3 (Sim3_mul X Y).
Proof. unfold valid_Sim3, Sim3_mul; cbn [fst snd]. apply valid_RxSO3_mul. Qed.
Lemma valid_Sim3_inv X : valid_Sim3 X -> valid_Sim3 (Sim3_inv X).
Proof. unfold valid_Sim3, Sim3_inv; cbn [fst snd]. apply valid_RxSO3_inv. Qed.

Definition history_SO3 := valid_history quatR SO3_mul SO3_inv valid_SO3 unitq_mul unitq_inv.
Definition history_SE3 := valid_history se3R SE3_mul SE3_inv valid_SE3 valid_SE3_mul valid_SE3_inv.
Definition history_RxSO3 := valid_history rxso3R RxSO3_mul RxSO3_inv valid_RxSO3 valid_RxSO3_mul valid_RxSO3_inv.
Definition history_Sim3 := valid_history sim3R Sim3_mul Sim3_inv valid_Sim3 valid_Sim3_mul valid_Sim3_inv.

(* the drift law behind "up to accumulated round-off": |q|^2 is multiplicative, so after any
   history it is the product of the |.|^2 of all factors (inverse keeps it) *)
Fixpoint norm_prod (ops : list (hop quatR)) : R :=
  match ops with
  | [] => 1
  | MulL _ Y :: r => qnorm2 Y * norm_prod r
  | MulR _ Y :: r => qnorm2 Y * norm_prod r
  | InvOp _ :: r => norm_prod r
  end.
Theorem qnorm2_history : forall ops (X : quatR),
  qnorm2 (fold_left (hstep quatR SO3_mul SO3_inv) ops X) = qnorm2 X * norm_prod ops.
Proof.
  induction ops as [|o ops IH]; intros X; cbn [fold_left norm_prod]; [ring|].
  rewrite IH. destruct o; cbn [hstep]; rewrite ?qnorm2_mul, ?qnorm2_inv; ring.
Qed.

(* hypotheses are satisfiable: a non-trivial unit quaternion and a positive scale *)
Example valid_example : valid_Sim3 ((1, 2, 3), (((3/5, 0, 0), 4/5), 2)).
Proof. unfold valid_Sim3, unitq. cbn [fst snd]. split; [lie_unfold; field | lra]. Qed.
