(* C15: proofs about Model/Dynamics.v — the time counter for every operation history, the LTI / LTV
   equations, correctness of the symbolic derivative, the linearisation identities and the
   second-order (Taylor-Lagrange) error of the affine model along every line. *)
From Coq Require Import Reals Lra Lia ZArith List Bool Arith Psatz.
From Coquelicot Require Import Coquelicot.
Import ListNotations.
From PV Require Import Base.Num Model.Dynamics.
#[local] Remove Hints NumQ NumZ : typeclass_instances.

(* ================================================================== 1. the time counter *)
Local Open Scope Z_scope.

Lemma run_time_app k : forall a t b, run_time k t (a ++ b) = run_time k (run_time k t a) b.
Proof. induction a as [|o a IH]; intros t b; [reflexivity|]. cbn. apply IH. Qed.

Lemma step_assign k t o v : assigns k o = Some v -> step_time' k t o = v.
Proof.
  unfold step_time'. destruct o as [| |r|r|[r|]]; cbn; try discriminate; try (now intros [= ->]).
  destruct k; cbn; try discriminate. now intros [= ->].
Qed.
Lemma step_no_assign k t o : assigns k o = None ->
  step_time' k t o = t + (if is_call o then 1 else 0).
Proof.
  unfold step_time'. destruct o as [| |r|r|[r|]]; destruct k; cbn; try discriminate; intros _; lia.
Qed.

Lemma count_calls_cons o ops : count_calls (o :: ops) = (if is_call o then 1 else 0) + count_calls ops.
Proof. unfold count_calls. cbn. destruct (is_call o); cbn [length]; lia. Qed.

Lemma run_no_assign k : forall ops t, no_assign k ops -> run_time k t ops = t + count_calls ops.
Proof.
  induction ops as [|o ops IH]; intros t H.
  - cbn. unfold count_calls. cbn. lia.
  - cbn [run_time]. rewrite IH by (intros o' Ho'; apply H; now right).
    rewrite step_no_assign by (apply H; now left). rewrite count_calls_cons. lia.
Qed.

(* time = last assigned value + number of calls since, for every history *)
Lemma time_after_assign k t0 pre a v post :
  assigns k a = Some v -> no_assign k post ->
  run_time k t0 (pre ++ a :: post) = v + count_calls post.
Proof.
  intros Ha Hp. rewrite run_time_app. cbn [run_time]. rewrite (step_assign _ _ _ _ Ha).
  now apply run_no_assign.
Qed.

(* every history is of one of the two shapes *)
Lemma split_last_assign k : forall ops,
  no_assign k ops \/
  exists pre a v post, ops = pre ++ a :: post /\ assigns k a = Some v /\ no_assign k post.
Proof.
  induction ops as [|o ops IH].
  - left. intros o [].
  - destruct IH as [Hn | (pre & a & v & post & -> & Ha & Hp)].
    + destruct (assigns k o) as [v|] eqn:Ho.
      * right. exists [], o, v, ops. repeat split; auto.
      * left. intros o' [<-|Hin]; auto.
    + right. exists (o :: pre), a, v, post. repeat split; auto.
Qed.

Theorem time_after_ops k t0 ops :
  (no_assign k ops /\ run_time k t0 ops = t0 + count_calls ops) \/
  (exists pre a v post, ops = pre ++ a :: post /\ assigns k a = Some v /\ no_assign k post /\
                        run_time k t0 ops = v + count_calls post).
Proof.
  destruct (split_last_assign k ops) as [Hn | (pre & a & v & post & E & Ha & Hp)].
  - left. split; [assumption | now apply run_no_assign].
  - right. exists pre, a, v, post. repeat split; auto. subst ops. now apply time_after_assign.
Qed.

(* the trace lists exactly the running times *)
Lemma time_trace_last k : forall ops t d,
  ops <> [] -> fst (List.last (time_trace k t ops) d) = run_time k t ops.
Proof.
  induction ops as [|o ops IH]; intros t d H; [congruence|].
  destruct ops as [|o2 ops]; [reflexivity|].
  cbn [time_trace run_time]. cbn [time_trace] in IH.
  specialize (IH (step_time' k t o) d ltac:(discriminate)). cbn [run_time] in IH. rewrite <- IH.
  reflexivity.
Qed.

(* the data-carrying machines have exactly this time component *)
Section Erase.
Context {F : Type} {NF : Num F}.
Lemma ltv_run_time (s : ltv) : forall ops t x,
  fst (ltv_run s (t, x) ops) = run_time KLTV t (map lop_erase ops).
Proof.
  induction ops as [|o ops IH]; intros t x; [reflexivity|].
  cbn [ltv_run map run_time]. destruct o as [u|u|v|v|[v|]]; cbn; try apply IH.
Qed.
Context {TF : Trans F}.
Lemma nls_step_time old fs gs (st : nst) o :
  n_t (nls_step'_gen old fs gs st o) = step_time' KNLS (n_t st) (nop_erase o).
Proof.
  unfold nls_step'_gen, step_time'. destruct o as [x u|x u t|v|v|ox ou ot|]; cbn; try reflexivity.
  - destruct ox, ou, (n_last st) as [[lx lu]|]; cbn; reflexivity.
  - destruct (n_ref st); reflexivity.
Qed.
Lemma nls_run_time_gen old fs gs : forall ops (st : nst),
  n_t (nls_run_gen old fs gs st ops) = run_time KNLS (n_t st) (map nop_erase ops).
Proof.
  induction ops as [|o ops IH]; intros st; [reflexivity|].
  cbn [nls_run_gen map run_time]. rewrite IH, nls_step_time. reflexivity.
Qed.
Lemma nls_run_time fs gs : forall ops (st : nst),
  n_t (nls_run fs gs st ops) = run_time KNLS (n_t st) (map nop_erase ops).
Proof. exact (nls_run_time_gen false fs gs). Qed.
End Erase.
Close Scope Z_scope.

(* ================================================================== 2. linear algebra, LTI, LTV *)
Local Open Scope R_scope.
Notation dotR := (dot (F:=R)).
Notation mvR := (mv (F:=R)).
Notation vaddR := (vadd (F:=R)).
Notation vsubR := (vsub (F:=R)).
Notation vscaleR := (vscale (F:=R)).

Lemma vadd_length (a b : list R) : length a = length b -> length (vaddR a b) = length a.
Proof.
  revert b; induction a as [|x a IH]; intros [|y b] H; cbn in *; try lia. rewrite IH; lia.
Qed.
Lemma vscale_length k (a : list R) : length (vscaleR k a) = length a.
Proof. apply map_length. Qed.
Lemma mv_length (M : list (list R)) v : length (mvR M v) = length M.
Proof. apply map_length. Qed.

Lemma nth_vadd (a b : list R) i : length a = length b ->
  nth i (vaddR a b) 0 = nth i a 0 + nth i b 0.
Proof.
  revert b i; induction a as [|x a IH]; intros [|y b] i H; cbn in H; try lia.
  - destruct i; cbn; lra.
  - destruct i; cbn; [reflexivity|]. apply IH; lia.
Qed.
Lemma nth_vscale k (a : list R) i : nth i (vscaleR k a) 0 = k * nth i a 0.
Proof.
  unfold vscale. revert i; induction a as [|x a IH]; intros [|i]; cbn; try lra; auto.
Qed.
Lemma nth_mv (M : list (list R)) v i : (i < length M)%nat -> nth i (mvR M v) 0 = dotR (nth i M []) v.
Proof.
  intros H. unfold mv. rewrite (nth_indep _ 0 (dotR [] v)) by (now rewrite map_length).
  apply (map_nth (fun r => dotR r v)).
Qed.

Lemma dot_vadd_l (a b r : list R) : length a = length b ->
  dotR (vaddR a b) r = dotR a r + dotR b r.
Proof.
  revert b r; induction a as [|x a IH]; intros [|y b] r H; cbn in H; try lia; [cbn; lra|].
  destruct r as [|z r]; cbn; [lra|]. rewrite IH by lia. ring.
Qed.
Lemma dot_vscale_l k (a r : list R) : dotR (vscaleR k a) r = k * dotR a r.
Proof.
  unfold vscale. revert r; induction a as [|x a IH]; intros [|z r]; cbn [map dot]; try (cbn; lra).
  rewrite IH. cbn. ring.
Qed.
Lemma dot_vadd_r (a x y : list R) : length x = length y ->
  dotR a (vaddR x y) = dotR a x + dotR a y.
Proof.
  revert x y; induction a as [|c a IH]; intros [|p x] [|q y] H; cbn in H; try lia; cbn; try lra.
  rewrite IH by lia. ring.
Qed.
Lemma dot_vscale_r k (a x : list R) : dotR a (vscaleR k x) = k * dotR a x.
Proof.
  unfold vscale. revert x; induction a as [|c a IH]; intros [|p x]; cbn [map dot]; try (cbn; lra).
  rewrite IH. cbn. ring.
Qed.
Lemma dot_repeat0 n (r : list R) : dotR (repeat 0 n) r = 0.
Proof. revert r; induction n as [|n IH]; intros [|z r]; cbn; try lra. rewrite IH. ring. Qed.
Lemma dot_nil_r (a : list R) : dotR a [] = 0.
Proof. destruct a; reflexivity. Qed.

(* bvmv: (l^T M) r is the bilinear form l^T (M r) *)
Lemma vm_length (l : list R) : forall (M : list (list R)) n,
  Forall (fun row => length row = n) M -> length (vm l M n) = n.
Proof.
  induction l as [|a l IH]; intros M n H; cbn; [apply repeat_length|].
  destruct M as [|row M]; [apply repeat_length|]. inversion H; subst.
  rewrite vadd_length; rewrite vscale_length; auto. now rewrite IH.
Qed.
Lemma bvmv_bilinear (l : list R) : forall (M : list (list R)) (r : list R),
  Forall (fun row => length row = length r) M -> length l = length M ->
  bvmv_m l M r = dotR l (mvR M r).
Proof.
  unfold bvmv_m. induction l as [|a l IH]; intros M r HM HL.
  - cbn. now rewrite dot_repeat0.
  - destruct M as [|row M]; [discriminate|]. inversion HM; subst. cbn in HL.
    cbn [vm mv map dot]. rewrite dot_vadd_l.
    + rewrite dot_vscale_l. fold (mvR M r). rewrite IH by (auto; lia). reflexivity.
    + rewrite vscale_length, vm_length; auto.
Qed.
Lemma nth_bvv (l r : list R) i j : nth j (nth i (bvv_m l r) []) 0 = nth i l 0 * nth j r 0.
Proof.
  unfold bvv_m. revert i; induction l as [|a l IH]; intros [|i]; cbn [map nth].
  - destruct j; cbn; ring.
  - destruct j; cbn; ring.
  - apply (nth_vscale a r j).
  - apply IH.
Qed.

(* LTI: x' = A x + B u (+ c1), y = C x + D u (+ c2), component by component *)
Lemma affine_component (A B : list (list R)) (c : option (list R)) (x u : list R) i :
  (i < length A)%nat -> length B = length A ->
  (forall cv, c = Some cv -> length cv = length A) ->
  nth i (addc (vaddR (mvR A x) (mvR B u)) c) 0 =
    dotR (nth i A []) x + dotR (nth i B []) u + match c with Some cv => nth i cv 0 | None => 0 end.
Proof.
  intros Hi HB Hc.
  assert (E : nth i (vaddR (mvR A x) (mvR B u)) 0 = dotR (nth i A []) x + dotR (nth i B []) u).
  { rewrite nth_vadd by (rewrite !mv_length; lia). rewrite !nth_mv by lia. reflexivity. }
  destruct c as [cv|]; cbn [addc].
  - rewrite nth_vadd; [now rewrite E|]. rewrite vadd_length; rewrite !mv_length; try lia.
    symmetry. now apply Hc.
  - rewrite E. lra.
Qed.
Definition lti_wf (s : lti (F:=R)) : Prop :=
  length (sB s) = length (sA s) /\ length (sD s) = length (sC s) /\
  (forall c, sc1 s = Some c -> length c = length (sA s)) /\
  (forall c, sc2 s = Some c -> length c = length (sC s)).
Lemma lti_equations (s : lti (F:=R)) x u : lti_wf s ->
  (forall i, (i < length (sA s))%nat ->
     nth i (lti_next s x u) 0 = dotR (nth i (sA s) []) x + dotR (nth i (sB s) []) u
                                + match sc1 s with Some c => nth i c 0 | None => 0 end) /\
  (forall i, (i < length (sC s))%nat ->
     nth i (lti_obs s x u) 0 = dotR (nth i (sC s) []) x + dotR (nth i (sD s) []) u
                               + match sc2 s with Some c => nth i c 0 | None => 0 end).
Proof.
  intros (H1 & H2 & H3 & H4). split; intros i Hi; unfold lti_next, lti_obs; now apply affine_component.
Qed.

(* LTV: k calls from time t0 use the matrices of times t0, t0+1, ... (index (t0+k) mod T) and end at
   time t0 + k *)
Lemma ltv_traj_step (s : ltv (F:=R)) : forall us t0 x0 k, (k < length us)%nat ->
  nth k (ltv_traj s t0 x0 us) [] =
    lti_next (ltv_at s (t0 + Z.of_nat k)%Z)
             (match k with O => x0 | S k' => nth k' (ltv_traj s t0 x0 us) [] end) (nth k us []).
Proof.
  induction us as [|u us IH]; intros t0 x0 k Hk; [cbn in Hk; lia|].
  destruct k as [|k]; cbn [ltv_traj nth].
  - now rewrite Z.add_0_r.
  - cbn in Hk. rewrite IH by lia. replace (t0 + 1 + Z.of_nat k)%Z with (t0 + Z.of_nat (S k))%Z by lia.
    destruct k; reflexivity.
Qed.
Lemma last_cons_default {A} (a : A) (l : list A) d : List.last (a :: l) d = List.last l a.
Proof.
  revert a; induction l as [|b l IH]; intros a; [reflexivity|].
  change (List.last (a :: b :: l) d) with (List.last (b :: l) d). rewrite IH.
  change (List.last (b :: l) a) with (match l with [] => b | _ => List.last l a end).
  destruct l as [|c l]; [reflexivity|]. now rewrite <- !IH.
Qed.
Lemma ltv_run_calls (s : ltv (F:=R)) : forall us t0 x0,
  ltv_run s (t0, x0) (map (@LCall R) us) =
    ((t0 + Z.of_nat (length us))%Z, List.last (ltv_traj s t0 x0 us) x0).
Proof.
  induction us as [|u us IH]; intros t0 x0.
  - cbn. now rewrite Z.add_0_r.
  - cbn [map ltv_run ltv_step]. rewrite IH. cbn [length ltv_traj]. rewrite last_cons_default.
    f_equal. lia.
Qed.

(* ================================================================== 3. the symbolic derivative *)
Notation evalR := (eval (F:=R)).
Notation derivR := (deriv (F:=R)).

(* the line through (x, u) with direction (dx, du) *)
Definition xl (x dx : list R) (s : R) : list R := vaddR x (vscaleR s dx).

Lemma nth_xl x dx s j : length dx = length x -> nth j (xl x dx s) 0 = nth j x 0 + s * nth j dx 0.
Proof. intros H. unfold xl. rewrite nth_vadd by (now rewrite vscale_length). now rewrite nth_vscale. Qed.
Lemma xl_0 x dx : length dx = length x -> xl x dx 0 = x.
Proof.
  unfold xl. revert dx; induction x as [|a x IH]; intros [|d dx] H; cbn in *; try lia; auto.
  f_equal; [ring|]. apply IH; lia.
Qed.
Lemma xl_length x dx s : length dx = length x -> length (xl x dx s) = length x.
Proof. intros H. unfold xl. now rewrite vadd_length; rewrite ?vscale_length. Qed.

(* sums over gradients *)
Lemma dot_map_ext {A} (f g : A -> R) l d : (forall a, f a = g a) -> dotR (map f l) d = dotR (map g l) d.
Proof. intros H. revert d; induction l as [|a l IH]; intros [|y d]; cbn; auto. now rewrite H, IH. Qed.
Lemma dot_map_zero {A} (l : list A) d : dotR (map (fun _ => 0) l) d = 0.
Proof. revert d; induction l as [|a l IH]; intros [|y d]; cbn; try lra. rewrite IH. ring. Qed.
Lemma dot_map_lin {A} (f g : A -> R) (p q : R) l d :
  dotR (map (fun a => f a * p + q * g a) l) d = p * dotR (map f l) d + q * dotR (map g l) d.
Proof. revert d; induction l as [|a l IH]; intros [|y d]; cbn; try lra. rewrite IH. ring. Qed.
Lemma dot_map_add {A} (f g : A -> R) l d :
  dotR (map (fun a => f a + g a) l) d = dotR (map f l) d + dotR (map g l) d.
Proof. revert d; induction l as [|a l IH]; intros [|y d]; cbn; try lra. rewrite IH. ring. Qed.
Lemma dot_map_scal {A} (f : A -> R) (p : R) l d :
  dotR (map (fun a => p * f a) l) d = p * dotR (map f l) d.
Proof. revert d; induction l as [|a l IH]; intros [|y d]; cbn; try lra. rewrite IH. ring. Qed.
Lemma dot_delta j : forall n a d, length d = n ->
  dotR (map (fun k => if Nat.eqb j k then 1 else 0) (seq a n)) d =
    if (a <=? j)%nat then nth (j - a) d 0 else 0.
Proof.
  induction n as [|n IH]; intros a d Hd.
  - destruct d; [|discriminate]. cbn. destruct (a <=? j)%nat; [|reflexivity]. destruct (j - a)%nat; reflexivity.
  - destruct d as [|y d]; [discriminate|].
    cbn [seq map dot]. rewrite IH by (cbn in Hd; lia). cbn [add mul NumR].
    destruct (Nat.eqb_spec j a) as [->|Hne].
    + rewrite Nat.leb_refl, Nat.sub_diag. cbn [nth].
      replace (S a <=? a)%nat with false by (symmetry; apply Nat.leb_gt; lia). ring.
    + destruct (Nat.leb_spec a j) as [Hle|Hgt].
      * replace (S a <=? j)%nat with true by (symmetry; apply Nat.leb_le; lia).
        replace (j - a)%nat with (S (j - S a)) by lia. cbn [nth]. ring.
      * replace (S a <=? j)%nat with false by (symmetry; apply Nat.leb_gt; lia). ring.
Qed.

Definition gradx (e : fexpr) (nx : nat) (x u : list R) (t : R) : list R :=
  map (fun k => evalR (derivR e (VX k)) x u t) (seq 0 nx).
Definition gradu (e : fexpr) (nu : nat) (x u : list R) (t : R) : list R :=
  map (fun k => evalR (derivR e (VU k)) x u t) (seq 0 nu).
Lemma grad_xvars e (x0 x u : list R) t : grad e (xvars x0) x u t = gradx e (length x0) x u t.
Proof. unfold grad, xvars, gradx. now rewrite map_map. Qed.
Lemma grad_uvars e (u0 x u : list R) t : grad e (uvars u0) x u t = gradu e (length u0) x u t.
Proof. unfold grad, uvars, gradu. now rewrite map_map. Qed.

(* derivative of e along the line s |-> (x + s dx, u + s du): the gradient applied to the direction *)
Definition dirder (e : fexpr) (x u dx du : list R) (t : R) : R :=
  dotR (gradx e (length dx) x u t) dx + dotR (gradu e (length du) x u t) du.

Lemma is_derive_line (e : fexpr (F:=R)) (x u dx du : list R) (t : R) :
  length dx = length x -> length du = length u ->
  forall s, is_derive (fun s => evalR e (xl x dx s) (xl u du s) t) s
                      (dirder e (xl x dx s) (xl u du s) dx du t).
Proof.
  intros Hx Hu. unfold dirder, gradx, gradu.
  induction e as [c|i|j| |a IHa b IHb|a IHa b IHb|a IHa|a IHa]; intros s; cbn [eval deriv].
  - rewrite !dot_map_zero, Rplus_0_r.
    apply (is_derive_const (K:=R_AbsRing) (V:=R_NormedModule)).
  - (* x_i *)
    apply (is_derive_ext (fun s => nth i x 0 + s * nth i dx 0)).
    { intros r. now rewrite nth_xl. }
    rewrite (dot_map_ext _ (fun k => if Nat.eqb i k then 1 else 0)).
    2:{ intros k. destruct (Nat.eqb i k); reflexivity. }
    rewrite dot_delta by reflexivity. rewrite dot_map_zero. cbn [Nat.leb]. rewrite Nat.sub_0_r.
    auto_derive; [exact I|ring].
  - (* u_j *)
    apply (is_derive_ext (fun s => nth j u 0 + s * nth j du 0)).
    { intros r. now rewrite nth_xl. }
    rewrite (dot_map_ext (fun k => evalR (if Nat.eqb j k then EConst one else EConst zero) _ _ _)
                         (fun k => if Nat.eqb j k then 1 else 0)).
    2:{ intros k. destruct (Nat.eqb j k); reflexivity. }
    rewrite dot_delta by reflexivity. rewrite dot_map_zero. cbn [Nat.leb]. rewrite Nat.sub_0_r.
    auto_derive; [exact I|ring].
  - rewrite !dot_map_zero, Rplus_0_r.
    apply (is_derive_const (K:=R_AbsRing) (V:=R_NormedModule)).
  - (* + *)
    cbn [add NumR]. rewrite !dot_map_add.
    match goal with |- is_derive _ _ ?v =>
      replace v with ((dotR (map (fun k => evalR (derivR a (VX k)) (xl x dx s) (xl u du s) t) (seq 0 (length dx))) dx
                       + dotR (map (fun k => evalR (derivR a (VU k)) (xl x dx s) (xl u du s) t) (seq 0 (length du))) du)
                    + (dotR (map (fun k => evalR (derivR b (VX k)) (xl x dx s) (xl u du s) t) (seq 0 (length dx))) dx
                       + dotR (map (fun k => evalR (derivR b (VU k)) (xl x dx s) (xl u du s) t) (seq 0 (length du))) du)) by ring end.
    apply (is_derive_plus (K:=R_AbsRing) (V:=R_NormedModule)); [apply IHa | apply IHb].
  - (* * *)
    cbn [add mul NumR]. rewrite !dot_map_lin.
    match goal with |- is_derive _ _ ?v =>
      replace v with ((dotR (map (fun k => evalR (derivR a (VX k)) (xl x dx s) (xl u du s) t) (seq 0 (length dx))) dx
                       + dotR (map (fun k => evalR (derivR a (VU k)) (xl x dx s) (xl u du s) t) (seq 0 (length du))) du)
                      * evalR b (xl x dx s) (xl u du s) t
                    + evalR a (xl x dx s) (xl u du s) t *
                      (dotR (map (fun k => evalR (derivR b (VX k)) (xl x dx s) (xl u du s) t) (seq 0 (length dx))) dx
                       + dotR (map (fun k => evalR (derivR b (VU k)) (xl x dx s) (xl u du s) t) (seq 0 (length du))) du)) by ring end.
    apply (is_derive_mult (fun s => evalR a (xl x dx s) (xl u du s) t) (fun s => evalR b (xl x dx s) (xl u du s) t));
      [apply IHa | apply IHb | intros n m; apply Rmult_comm].
  - (* sin *)
    cbn [mul tsin tcos NumR TransR]. rewrite !dot_map_scal.
    match goal with |- is_derive _ _ ?v =>
      replace v with (scal (dotR (map (fun k => evalR (derivR a (VX k)) (xl x dx s) (xl u du s) t) (seq 0 (length dx))) dx
                       + dotR (map (fun k => evalR (derivR a (VU k)) (xl x dx s) (xl u du s) t) (seq 0 (length du))) du)
                           (cos (evalR a (xl x dx s) (xl u du s) t)))
        by (unfold scal; cbn; unfold mult; cbn; ring) end.
    apply (is_derive_comp (K:=R_AbsRing) (V:=R_NormedModule) sin (fun s => evalR a (xl x dx s) (xl u du s) t));
      [apply is_derive_sin | apply IHa].
  - (* cos *)
    cbn [mul opp one tsin tcos NumR TransR]. rewrite !dot_map_scal.
    match goal with |- is_derive _ _ ?v =>
      replace v with (scal (dotR (map (fun k => evalR (derivR a (VX k)) (xl x dx s) (xl u du s) t) (seq 0 (length dx))) dx
                       + dotR (map (fun k => evalR (derivR a (VU k)) (xl x dx s) (xl u du s) t) (seq 0 (length du))) du)
                           (- sin (evalR a (xl x dx s) (xl u du s) t)))
        by (unfold scal; cbn; unfold mult; cbn; ring) end.
    apply (is_derive_comp (K:=R_AbsRing) (V:=R_NormedModule) cos (fun s => evalR a (xl x dx s) (xl u du s) t));
      [apply is_derive_cos | apply IHa].
Qed.

(* ---- partial derivatives: the perturbation form  h |-> e(x + h e_i, u, t)  and the
        substitution form  s |-> e(x[i := s], u, t) *)
Fixpoint basis (i n : nat) : list R :=
  match n with
  | O => []
  | S n' => match i with O => 1 :: repeat 0 n' | S i' => 0 :: basis i' n' end
  end.
Fixpoint upd (l : list R) (i : nat) (s : R) : list R :=
  match l, i with
  | [], _ => []
  | _ :: l', O => s :: l'
  | a :: l', S i' => a :: upd l' i' s
  end.
Lemma basis_length i n : length (basis i n) = n.
Proof. revert i; induction n as [|n IH]; intros [|i]; cbn; auto. now rewrite repeat_length. Qed.
Lemma xl_zeros x s : xl x (repeat 0 (length x)) s = x.
Proof. unfold xl, vscale. induction x as [|a x IH]; cbn; [reflexivity|]. f_equal; [ring|apply IH]. Qed.
Lemma dot_zeros_r (g : list R) n : dotR g (repeat 0 n) = 0.
Proof. revert n; induction g as [|a g IH]; intros [|n]; cbn; try lra. rewrite IH. ring. Qed.
Lemma dot_basis (g : list R) : forall i n, dotR g (basis i n) = if (i <? n)%nat then nth i g 0 else 0.
Proof.
  induction g as [|a g IH]; intros i n.
  - cbn [dot]. destruct (i <? n)%nat; destruct i; reflexivity.
  - destruct n as [|n]; [destruct i; reflexivity|]. destruct i as [|i]; cbn [basis dot nth].
    + rewrite dot_zeros_r. cbn. ring.
    + rewrite IH. change (S i <? S n)%nat with (i <? n)%nat. destruct (i <? n)%nat; cbn; ring.
Qed.
Lemma upd_xl : forall x i s, (i < length x)%nat ->
  upd x i s = xl x (basis i (length x)) (s - nth i x 0).
Proof.
  induction x as [|a x IH]; intros i s Hi; [cbn in Hi; lia|].
  destruct i as [|i]; cbn [upd length basis nth].
  - unfold xl. cbn [vscale map vadd]. fold (vscaleR (s - a) (repeat 0 (length x))).
    fold (xl x (repeat 0 (length x)) (s - a)). rewrite xl_zeros. f_equal. cbn. ring.
  - unfold xl. cbn [vscale map vadd]. fold (vscaleR (s - nth i x 0) (basis i (length x))).
    fold (xl x (basis i (length x)) (s - nth i x 0)). rewrite <- IH by (cbn in Hi; lia). f_equal. cbn. ring.
Qed.

Lemma nth_map_seq (f : nat -> R) n i : (i < n)%nat -> nth i (map f (seq 0 n)) 0 = f i.
Proof.
  intros H. rewrite (nth_indep _ 0 (f 0%nat)) by (now rewrite map_length, seq_length).
  rewrite map_nth, seq_nth by lia. reflexivity.
Qed.

Lemma deriv_correct_x_pert (e : fexpr (F:=R)) (x u : list R) (t : R) i : (i < length x)%nat ->
  forall h, is_derive (fun h => evalR e (xl x (basis i (length x)) h) u t) h
                      (evalR (derivR e (VX i)) (xl x (basis i (length x)) h) u t).
Proof.
  intros Hi h.
  pose proof (is_derive_line e x u (basis i (length x)) (repeat 0 (length u)) t
                (basis_length _ _) (repeat_length _ _) h) as H.
  unfold dirder in H. rewrite dot_zeros_r, Rplus_0_r, dot_basis, basis_length in H.
  replace (i <? length x)%nat with true in H by (symmetry; apply Nat.ltb_lt; lia).
  unfold gradx in H.
  rewrite nth_map_seq in H by lia. rewrite xl_zeros in H.
  eapply is_derive_ext; [|exact H]. intros r. cbn beta. now rewrite xl_zeros.
Qed.
(* substitution form: the function of the i-th state component alone *)
Lemma deriv_correct_x (e : fexpr (F:=R)) (x u : list R) (t : R) i : (i < length x)%nat ->
  forall s, is_derive (fun s => evalR e (upd x i s) u t) s (evalR (derivR e (VX i)) (upd x i s) u t).
Proof.
  intros Hi s.
  apply (is_derive_ext (fun s => (fun h => evalR e (xl x (basis i (length x)) h) u t) (s - nth i x 0))).
  { intros r. cbn beta. now rewrite upd_xl. }
  rewrite upd_xl by assumption.
  replace (evalR (derivR e (VX i)) (xl x (basis i (length x)) (s - nth i x 0)) u t)
    with (scal 1 (evalR (derivR e (VX i)) (xl x (basis i (length x)) (s - nth i x 0)) u t))
    by (unfold scal; cbn; unfold mult; cbn; ring).
  apply (is_derive_comp (K:=R_AbsRing) (V:=R_NormedModule)
           (fun h => evalR e (xl x (basis i (length x)) h) u t) (fun s => s - nth i x 0)).
  - now apply deriv_correct_x_pert.
  - auto_derive; [exact I|ring].
Qed.
Lemma upd_same x i : upd x i (nth i x 0) = x.
Proof. revert i; induction x as [|a x IH]; intros [|i]; cbn; auto. now rewrite IH. Qed.
Lemma deriv_correct_x_at (e : fexpr (F:=R)) (x u : list R) (t : R) i : (i < length x)%nat ->
  is_derive (fun s => evalR e (upd x i s) u t) (nth i x 0) (evalR (derivR e (VX i)) x u t).
Proof. intros Hi. pose proof (deriv_correct_x e x u t i Hi (nth i x 0)) as H. now rewrite upd_same in H. Qed.

(* the same for the input components *)
Lemma deriv_correct_u_pert (e : fexpr (F:=R)) (x u : list R) (t : R) j : (j < length u)%nat ->
  forall h, is_derive (fun h => evalR e x (xl u (basis j (length u)) h) t) h
                      (evalR (derivR e (VU j)) x (xl u (basis j (length u)) h) t).
Proof.
  intros Hj h.
  pose proof (is_derive_line e x u (repeat 0 (length x)) (basis j (length u)) t
                (repeat_length _ _) (basis_length _ _) h) as H.
  unfold dirder in H. rewrite dot_zeros_r, Rplus_0_l, dot_basis, basis_length in H.
  replace (j <? length u)%nat with true in H by (symmetry; apply Nat.ltb_lt; lia).
  unfold gradu in H.
  rewrite nth_map_seq in H by lia. rewrite xl_zeros in H.
  eapply is_derive_ext; [|exact H]. intros r. cbn beta. now rewrite xl_zeros.
Qed.
Lemma deriv_correct_u (e : fexpr (F:=R)) (x u : list R) (t : R) j : (j < length u)%nat ->
  forall s, is_derive (fun s => evalR e x (upd u j s) t) s (evalR (derivR e (VU j)) x (upd u j s) t).
Proof.
  intros Hj s.
  apply (is_derive_ext (fun s => (fun h => evalR e x (xl u (basis j (length u)) h) t) (s - nth j u 0))).
  { intros r. cbn beta. now rewrite upd_xl. }
  rewrite upd_xl by assumption.
  replace (evalR (derivR e (VU j)) x (xl u (basis j (length u)) (s - nth j u 0)) t)
    with (scal 1 (evalR (derivR e (VU j)) x (xl u (basis j (length u)) (s - nth j u 0)) t))
    by (unfold scal; cbn; unfold mult; cbn; ring).
  apply (is_derive_comp (K:=R_AbsRing) (V:=R_NormedModule)
           (fun h => evalR e x (xl u (basis j (length u)) h) t) (fun s => s - nth j u 0)).
  - now apply deriv_correct_u_pert.
  - auto_derive; [exact I|ring].
Qed.

(* ================================================================== 4. the linearisation *)
(* A xr + B ur + c1 = f(xr, ur, tr) at the reference point (xr, ur, tr) *)
Lemma vadd_vsub_cancel : forall (f a b : list R), length a = length f -> length b = length f ->
  vaddR (vaddR a b) (vsubR (vsubR f a) b) = f.
Proof.
  induction f as [|y f IH]; intros [|p a] [|q b] Ha Hb; cbn in *; try lia; auto.
  f_equal; [ring|]. apply IH; lia.
Qed.
Definition affine_model (fs : list (fexpr (F:=R))) (x u : list R) (t : R) (x' u' : list R) : list R :=
  vaddR (vaddR (mvR (nls_A fs x u t) x') (mvR (nls_B fs x u t) u'))
        (nls_c (evals fs x u t) (nls_A fs x u t) (nls_B fs x u t) x u).
Lemma nls_affine_reproduces (fs : list (fexpr (F:=R))) x u t :
  affine_model fs x u t x u = evals fs x u t.
Proof.
  unfold affine_model, nls_c. apply vadd_vsub_cancel; rewrite mv_length; unfold nls_A, nls_B, jac, evals;
    now rewrite !map_length.
Qed.

(* the i-th component of the affine model at xr + s dx, ur + s du *)
Lemma nth_vsub (a b : list R) i : length a = length b -> nth i (vsubR a b) 0 = nth i a 0 - nth i b 0.
Proof.
  revert b i; induction a as [|x a IH]; intros [|y b] i H; cbn in H; try lia.
  - destruct i; cbn; lra.
  - destruct i; cbn; [reflexivity|]. apply IH; lia.
Qed.
Lemma vsub_length (a b : list R) : length a = length b -> length (vsubR a b) = length a.
Proof. revert b; induction a as [|x a IH]; intros [|y b] H; cbn in *; try lia. rewrite IH; lia. Qed.
Lemma nth_map_list {A} (g : A -> list R) (l : list A) (d : A) i : (i < length l)%nat ->
  nth i (map g l) [] = g (nth i l d).
Proof. intros H. rewrite (nth_indep _ [] (g d)) by (now rewrite map_length). apply map_nth. Qed.
Lemma nth_map_R {A} (g : A -> R) (l : list A) (d : A) i : (i < length l)%nat ->
  nth i (map g l) 0 = g (nth i l d).
Proof. intros H. rewrite (nth_indep _ 0 (g d)) by (now rewrite map_length). apply map_nth. Qed.

Lemma affine_component_line (fs : list (fexpr (F:=R))) x u t dx du s i :
  (i < length fs)%nat -> length dx = length x -> length du = length u ->
  nth i (affine_model fs x u t (xl x dx s) (xl u du s)) 0 =
    evalR (nth i fs ET) x u t + s * dirder (nth i fs ET) x u dx du t.
Proof.
  intros Hi Hx Hu. unfold affine_model, nls_c.
  assert (LA : length (nls_A fs x u t) = length fs) by (unfold nls_A, jac; now rewrite map_length).
  assert (LB : length (nls_B fs x u t) = length fs) by (unfold nls_B, jac; now rewrite map_length).
  assert (LF : length (evals fs x u t) = length fs) by (unfold evals; now rewrite map_length).
  rewrite nth_vadd.
  2:{ rewrite vadd_length; rewrite !mv_length; try lia. rewrite vsub_length; rewrite vsub_length; rewrite ?mv_length; lia. }
  rewrite nth_vadd by (rewrite !mv_length; lia).
  rewrite nth_vsub by (rewrite vsub_length; rewrite ?mv_length; lia).
  rewrite nth_vsub by (rewrite ?mv_length; lia).
  rewrite !nth_mv by lia.
  unfold nls_A, nls_B, jac, evals. rewrite !(nth_map_list _ fs ET) by lia. rewrite (nth_map_R _ fs ET) by lia.
  rewrite grad_xvars, grad_uvars. unfold xl.
  rewrite !dot_vadd_r by (now rewrite vscale_length). rewrite !dot_vscale_r.
  unfold dirder. rewrite Hx, Hu. ring.
Qed.

(* ---- second derivative along the line, as an expression again *)
Fixpoint lincomb (cs : list R) (es : list (fexpr (F:=R))) : fexpr (F:=R) :=
  match cs, es with
  | c :: cs', e :: es' => EAdd (EMul (EConst c) e) (lincomb cs' es')
  | _, _ => EConst 0
  end.
Definition dline (e : fexpr (F:=R)) (dx du : list R) : fexpr (F:=R) :=
  EAdd (lincomb dx (map (fun k => derivR e (VX k)) (seq 0 (length dx))))
       (lincomb du (map (fun k => derivR e (VU k)) (seq 0 (length du)))).
Lemma eval_lincomb : forall cs es x u t,
  evalR (lincomb cs es) x u t = dotR (map (fun e => evalR e x u t) es) cs.
Proof.
  induction cs as [|c cs IH]; intros [|e es] x u t; cbn [lincomb map dot eval]; try reflexivity.
  rewrite IH. cbn. ring.
Qed.
Lemma eval_dline e dx du x u t : evalR (dline e dx du) x u t = dirder e x u dx du t.
Proof. unfold dline, dirder, gradx, gradu. cbn [eval]. rewrite !eval_lincomb, !map_map. reflexivity. Qed.

(* second directional derivative  d^T H d  at a point *)
Definition d2 (e : fexpr (F:=R)) (x u dx du : list R) (t : R) : R :=
  evalR (dline (dline e dx du) dx du) x u t.

Lemma is_derive_line1 e x u dx du t : length dx = length x -> length du = length u ->
  forall s, is_derive (fun s => dirder e (xl x dx s) (xl u du s) dx du t) s
                      (d2 e (xl x dx s) (xl u du s) dx du t).
Proof.
  intros Hx Hu s. unfold d2. rewrite eval_dline.
  apply (is_derive_ext (fun s => evalR (dline e dx du) (xl x dx s) (xl u du s) t)).
  { intros r. apply eval_dline. }
  now apply is_derive_line.
Qed.

(* ---- Taylor-Lagrange, order 2, both directions *)
Lemma taylor2_pos (p p1 p2 : R -> R) :
  (forall r, is_derive p r (p1 r)) -> (forall r, is_derive p1 r (p2 r)) ->
  forall s M, 0 < s -> (forall r, 0 <= r <= s -> Rabs (p2 r) <= M) ->
  Rabs (p s - (p 0 + s * p1 0)) <= M * s ^ 2 / 2.
Proof.
  intros D1 D2 s M Hs HM.
  assert (E1 : forall r, Derive p r = p1 r) by (intros r; apply is_derive_unique, D1).
  destruct (Taylor_Lagrange p 1 0 s Hs) as (z & Hz & Ht).
  { intros r _ k Hk. destruct k as [|[|[|k]]]; try lia.
    - exact I.
    - cbn. exists (p1 r). apply D1.
    - cbn. apply (ex_derive_ext p1); [intros q; now rewrite E1|]. exists (p2 r). apply D2. }
  cbn [sum_f_R0 Derive_n fact] in Ht. rewrite Rminus_0_r in Ht.
  rewrite E1 in Ht.
  replace (Derive (fun x : R => Derive (fun x0 : R => p x0) x) z) with (p2 z) in Ht
    by (symmetry; rewrite (Derive_ext _ p1); [apply is_derive_unique, D2 | intros q; apply E1]).
  rewrite Ht. cbn [INR Nat.add Nat.mul].
  replace (s ^ 0 / 1 * p 0 + s ^ 1 / 1 * p1 0 + s ^ 2 / (1 + 1) * p2 z - (p 0 + s * p1 0))
    with (p2 z * (s ^ 2 / 2)) by (cbn; field).
  rewrite Rabs_mult. rewrite (Rabs_pos_eq (s ^ 2 / 2)) by nra.
  replace (M * s ^ 2 / 2) with (M * (s ^ 2 / 2)) by field.
  apply Rmult_le_compat_r; [nra|]. apply HM. lra.
Qed.
Lemma taylor2 (p p1 p2 : R -> R) :
  (forall r, is_derive p r (p1 r)) -> (forall r, is_derive p1 r (p2 r)) ->
  forall s M, (forall r, Rmin 0 s <= r <= Rmax 0 s -> Rabs (p2 r) <= M) ->
  Rabs (p s - (p 0 + s * p1 0)) <= M * s ^ 2 / 2.
Proof.
  intros D1 D2 s M HM. destruct (Rtotal_order 0 s) as [Hs|[<-|Hs]].
  - apply taylor2_pos with p2; auto. intros r Hr. apply HM.
    rewrite Rmin_left, Rmax_right by lra. lra.
  - replace (p 0 - (p 0 + 0 * p1 0)) with 0 by ring. rewrite Rabs_R0.
    assert (0 <= M). { eapply Rle_trans; [apply Rabs_pos|]. apply (HM 0). rewrite Rmin_left, Rmax_left; lra. }
    nra.
  - (* reflect *)
    pose proof (taylor2_pos (fun r => p (- r)) (fun r => - p1 (- r)) (fun r => p2 (- r))) as T.
    replace (M * s ^ 2 / 2) with (M * (- s) ^ 2 / 2) by (cbn; field).
    replace (p s - (p 0 + s * p1 0)) with (p (- - s) - (p (- 0) + - s * - p1 (- 0)))
      by (rewrite Ropp_involutive, Ropp_0; ring).
    apply T.
    + intros r.
      replace (- p1 (- r)) with (scal (-1) (p1 (- r))) by (unfold scal; cbn; unfold mult; cbn; ring).
      apply (is_derive_comp (K:=R_AbsRing) (V:=R_NormedModule) p (fun r => - r)); [apply D1|].
      auto_derive; [exact I|ring].
    + intros r.
      replace (p2 (- r)) with (- (scal (-1) (p2 (- r)))) by (unfold scal; cbn; unfold mult; cbn; ring).
      apply (is_derive_opp (K:=R_AbsRing) (V:=R_NormedModule) (fun r => p1 (- r))).
      apply (is_derive_comp (K:=R_AbsRing) (V:=R_NormedModule) p1 (fun r => - r)); [apply D2|].
      auto_derive; [exact I|ring].
    + lra.
    + intros r Hr. apply HM. rewrite Rmin_right, Rmax_left by lra. lra.
Qed.

(* every component of the transition function along every line through the reference point *)
Lemma second_order_component e x u t dx du s M : length dx = length x -> length du = length u ->
  (forall r, Rmin 0 s <= r <= Rmax 0 s -> Rabs (d2 e (xl x dx r) (xl u du r) dx du t) <= M) ->
  Rabs (evalR e (xl x dx s) (xl u du s) t - (evalR e x u t + s * dirder e x u dx du t)) <= M * s ^ 2 / 2.
Proof.
  intros Hx Hu HM.
  pose proof (taylor2 (fun s => evalR e (xl x dx s) (xl u du s) t)
                      (fun s => dirder e (xl x dx s) (xl u du s) dx du t)
                      (fun s => d2 e (xl x dx s) (xl u du s) dx du t)
                      (is_derive_line e x u dx du t Hx Hu) (is_derive_line1 e x u dx du t Hx Hu) s M HM) as T.
  cbn beta in T. now rewrite !xl_0 in T by assumption.
Qed.
Lemma nls_second_order (fs : list (fexpr (F:=R))) x u t dx du s M i :
  (i < length fs)%nat -> length dx = length x -> length du = length u ->
  (forall r, Rmin 0 s <= r <= Rmax 0 s -> Rabs (d2 (nth i fs ET) (xl x dx r) (xl u du r) dx du t) <= M) ->
  Rabs (nth i (evals fs (xl x dx s) (xl u du s) t) 0 - nth i (affine_model fs x u t (xl x dx s) (xl u du s)) 0)
    <= M * s ^ 2 / 2.
Proof.
  intros Hi Hx Hu HM. rewrite affine_component_line by assumption.
  unfold evals. rewrite (nth_map_R _ fs ET) by assumption. now apply second_order_component.
Qed.

(* a bound M always exists on a bounded part of the line: the error IS second order *)
Lemma d2_bounded e x u t dx du rho : length dx = length x -> length du = length u -> 0 <= rho ->
  exists M, 0 <= M /\ forall r, - rho <= r <= rho -> Rabs (d2 e (xl x dx r) (xl u du r) dx du t) <= M.
Proof.
  intros Hx Hu Hr.
  set (h := fun r => Rabs (d2 e (xl x dx r) (xl u du r) dx du t)).
  destruct (continuity_ab_maj h (- rho) rho ltac:(lra)) as (m & Hm & _).
  - intros c _. unfold h.
    change (continuity_pt (comp Rabs (fun r => d2 e (xl x dx r) (xl u du r) dx du t)) c).
    apply (continuity_pt_comp (fun r => d2 e (xl x dx r) (xl u du r) dx du t) Rabs c); [|apply Rcontinuity_abs].
    apply continuity_pt_filterlim. apply (ex_derive_continuous (K:=R_AbsRing) (V:=R_NormedModule) (fun r => d2 e (xl x dx r) (xl u du r) dx du t) c).
    unfold d2. exists (dirder (dline (dline e dx du) dx du) (xl x dx c) (xl u du c) dx du t).
    apply (is_derive_line (dline (dline e dx du) dx du) x u dx du t Hx Hu c).
  - exists (h m). split; [apply Rabs_pos|]. intros r Hrr. now apply Hm.
Qed.
Lemma nls_second_order_exists (fs : list (fexpr (F:=R))) x u t dx du rho i :
  (i < length fs)%nat -> length dx = length x -> length du = length u -> 0 <= rho ->
  exists M, 0 <= M /\ forall s, Rabs s <= rho ->
    Rabs (nth i (evals fs (xl x dx s) (xl u du s) t) 0 - nth i (affine_model fs x u t (xl x dx s) (xl u du s)) 0)
      <= M * s ^ 2 / 2.
Proof.
  intros Hi Hx Hu Hr. destruct (d2_bounded (nth i fs ET) x u t dx du rho Hx Hu Hr) as (M & HM0 & HM).
  exists M. split; [assumption|]. intros s Hs. apply nls_second_order; try assumption.
  intros r Hrr. apply HM. apply Rabs_le_between in Hs.
  destruct (Rle_dec 0 s); [rewrite Rmin_left, Rmax_right in Hrr by lra | rewrite Rmin_right, Rmax_left in Hrr by lra]; lra.
Qed.

(* ================================================================== 5. the NLS object *)
Definition no_setref (ops : list (nop (F:=R))) : Prop :=
  forall o, In o ops -> match o with NSetRef _ _ _ => False | _ => True end.

Lemma nls_step_keeps_ref old fs gs (st : nst (F:=R)) o :
  match o with NSetRef _ _ _ => False | _ => True end -> n_ref (nls_step'_gen old fs gs st o) = n_ref st.
Proof.
  unfold nls_step'_gen. destruct o as [x u|x u t|v|v|ox ou ot|]; cbn; try reflexivity; [tauto|].
  intros _. destruct (n_ref st) eqn:E; cbn; rewrite ?E; reflexivity.
Qed.
Lemma nls_run_keeps_ref old fs gs : forall ops (st : nst (F:=R)),
  no_setref ops -> n_ref (nls_run_gen old fs gs st ops) = n_ref st.
Proof.
  induction ops as [|o ops IH]; intros st H; [reflexivity|].
  cbn [nls_run_gen]. rewrite IH by (intros o' Ho'; apply H; now right).
  apply nls_step_keeps_ref. apply H. now left.
Qed.

(* which state / input set_refpoint takes: the given one, else the one of the most recent forward *)
Definition ref_arg (o : option (list R)) (last : option (list R)) : option (list R) :=
  match o with Some v => Some v | None => last end.
(* which reference time: the given one, else the time at that moment *)
Definition ref_time (st : nst (F:=R)) (ot : option R) : R :=
  match ot with Some v => v | None => IZR (n_t st) end.

(* set_refpoint(x, u, t), t given or not: whatever happens afterwards (calls, resets, time
   assignments, direct calls, reads), A, B, C, D, c1, c2 read as the linearisation at
   (x, u, t or the time at which set_refpoint ran) *)
Lemma nls_read_fixed fs gs (st : nst (F:=R)) ox ou ot x u ops :
  ref_arg ox (option_map fst (n_last st)) = Some x ->
  ref_arg ou (option_map snd (n_last st)) = Some u ->
  no_setref ops ->
  let st1 := nls_step' fs gs st (NSetRef ox ou ot) in
  let st2 := nls_run fs gs st1 ops in
  nls_step fs gs st2 NRead = Some (st2, nls_lin_l fs gs x u (ref_time st ot)).
Proof.
  intros Hx Hu Hops st1 st2. set (tr := ref_time st ot).
  assert (R1 : n_ref st1 = Some {| r_x := x; r_u := u; r_t := TFixed tr;
                                   r_f := evals fs x u tr; r_g := evals gs x u tr |}).
  { subst st1 tr. unfold nls_step', nls_step'_gen, nls_step_gen, ref_time. unfold ref_arg in Hx, Hu.
    destruct ot as [v|]; destruct ox as [x0|]; destruct ou as [u0|]; cbn in Hx, Hu |- *;
      try rewrite Hx; try rewrite Hu; try (injection Hx as ->); try (injection Hu as ->); reflexivity. }
  assert (R2 : n_ref st2 = n_ref st1) by (subst st2; now apply nls_run_keeps_ref).
  unfold nls_step, nls_step_gen. rewrite R2, R1. reflexivity.
Qed.

(* ---- history: the machine before 6b6eb73.  set_refpoint(x, u) with t=None stored the live `_t`
   buffer: later reads used the time at the moment of reading for the Jacobians, but the values
   f(x,u,.), g(x,u,.) stored when set_refpoint ran *)
Lemma nls_read_alias_old fs gs (st : nst (F:=R)) ox ou x u ops :
  ref_arg ox (option_map fst (n_last st)) = Some x ->
  ref_arg ou (option_map snd (n_last st)) = Some u ->
  no_setref ops ->
  let st1 := nls_step'_old fs gs st (NSetRef ox ou None) in
  let st2 := nls_run_old fs gs st1 ops in
  let t0 := IZR (n_t st) in
  let tnow := IZR (run_time KNLS (n_t st) (map nop_erase ops)) in
  nls_step_old fs gs st2 NRead = Some (st2, lin_read fs gs x u tnow (evals fs x u t0) (evals gs x u t0)).
Proof.
  intros Hx Hu Hops st1 st2 t0 tnow.
  assert (R1 : n_ref st1 = Some {| r_x := x; r_u := u; r_t := TAlias;
                                   r_f := evals fs x u t0; r_g := evals gs x u t0 |} /\ n_t st1 = n_t st).
  { subst st1. unfold nls_step'_old, nls_step'_gen, nls_step_gen. unfold ref_arg in Hx, Hu.
    destruct ox as [x0|]; destruct ou as [u0|]; cbn in Hx, Hu |- *;
      try rewrite Hx; try rewrite Hu; try (injection Hx as ->); try (injection Hu as ->); split; reflexivity. }
  destruct R1 as [R1 T1].
  assert (R2 : n_ref st2 = n_ref st1) by (subst st2; now apply nls_run_keeps_ref).
  assert (T2 : n_t st2 = run_time KNLS (n_t st) (map nop_erase ops)).
  { subst st2. unfold nls_run_old. rewrite nls_run_time_gen. now rewrite T1. }
  unfold nls_step_old, nls_step_gen. rewrite R2, R1. cbn [r_x r_u r_t r_f r_g tval]. rewrite T2. reflexivity.
Qed.
(* ... which was NOT the linearisation at the reference point once a call had advanced the time:
   f(x, u, t) = t * x0, set_refpoint() at time 1, one more call, then A read 2 although the
   Jacobian at the reference point is 1 *)
Lemma nls_default_t_old_refuted :
  exists (fs gs : list (fexpr (F:=R))) (st : nst (F:=R)) (x u : list R) (ops : list (nop (F:=R))),
    no_setref ops /\
    let st2 := nls_run_old fs gs (nls_step'_old fs gs st (NSetRef (Some x) (Some u) None)) ops in
    exists out, nls_step_old fs gs st2 NRead = Some (st2, out) /\
                out <> nls_lin_l fs gs x u (IZR (n_t st)).
Proof.
  exists [EMul ET (EX 0)], [EX 0], (nst_init 1), [1], [0], [NCall [1] [0]]. split.
  - intros o [<-|[]]. exact I.
  - cbv zeta. eexists. split; [reflexivity|].
    cbv [nls_lin_l lin_read nls_run_old nls_run_gen nls_step'_old nls_step'_gen nls_step_gen nst_init
         n_ref n_t n_last r_x r_u r_t r_f r_g tval
         nls_A nls_B jac grad xvars uvars length seq map concat app eval deriv Nat.eqb evals ofZ NumR
         Z.add Pos.add Pos.succ].
    intros H. injection H. intros. cbn in *. lra.
Qed.

(* history: LTV.set_refpoint() with the default t=None raised; now it keeps the time *)
Lemma ltv_setref_default_old_raises t : step_time_old KLTV t (SetRef None) = None.
Proof. reflexivity. Qed.
Lemma ltv_setref_default_keeps_time t : step_time KLTV t (SetRef None) = Some t.
Proof. reflexivity. Qed.
Lemma step_time_total k t o : exists t', step_time k t o = Some t'.
Proof. destruct o as [| |v|v|[v|]]; destruct k; cbn; eauto. Qed.

(* the hypothesis of nls_second_order is satisfiable with an explicit constant: f = sin x0 *)
Lemma second_order_example (x s : R) :
  Rabs (nth 0 (evals [ESin (EX 0)] (xl [x] [1] s) (xl [] [] s) 0) 0
        - nth 0 (affine_model [ESin (EX 0)] [x] [] 0 (xl [x] [1] s) (xl [] [] s)) 0) <= 1 * s ^ 2 / 2.
Proof.
  apply nls_second_order; try reflexivity; [cbn; lia|].
  intros r _. unfold d2, dline, xl. cbn.
  match goal with |- Rabs ?e <= 1 => replace e with (- sin (x + r * 1)) by ring end.
  rewrite Rabs_Ropp. apply Rabs_le. pose proof (SIN_bound (x + r * 1)). lra.
Qed.
