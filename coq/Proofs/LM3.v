(* C08 (strengthening): the retraction-undo hypothesis of the LM theorems for pypose's own SO3 parameters
   (retract X d = Exp(d) @ X, the rejected trial is undone by retract . (-d)):
   exact for every step on the closed-form branch of so3_Exp; for a small-angle (Taylor branch) step the
   restored quaternion is the original one scaled by |Exp(d)|^2, which is within theta^6/20000 of 1. *)
From Coq Require Import Reals Lra Psatz List.
Import ListNotations.
From PV Require Import Base.Num Base.RTac Model.LieGroup Model.LieExp Proofs.LieGroup Proofs.LieExp Proofs.LieGroup3.
Local Open Scope R_scope.
#[local] Remove Hints NumQ NumZ : typeclass_instances.

Definition so3_retract (eps : R) (X : quatR) (d : vec3R) : quatR := SO3_mul (so3_exp eps d) X.
Definition qscale (k : R) (q : quatR) : quatR := (vscale k (qv q), k * qw q).

Lemma vnorm_neg' (v : vec3R) : vnorm (vneg v) = vnorm v.
Proof. unfold vnorm. f_equal. destruct v as [[a b] c]. lie_unfold. ring. Qed.
Lemma so3_exp_neg' (eps : R) (a : vec3R) : so3_exp eps (vneg a) = SO3_inv (so3_exp eps a).
Proof.
  unfold so3_exp. rewrite vnorm_neg'. generalize (so3_exp_coef eps (vnorm a)). intros [k c]. cbn [fst snd].
  destruct a as [[a1 a2] a3]. lie_unfold. split_pairs; ring.
Qed.
Lemma inv_mul_mul (E X : quatR) : SO3_mul (SO3_inv E) (SO3_mul E X) = qscale (qnorm2 E) X.
Proof. unfold qscale. lie_ring. Qed.

(* the restored parameter after a rejected trial, every step size *)
Theorem so3_retract_undo_general (eps : R) (X : quatR) (d : vec3R) :
  so3_retract eps (so3_retract eps X d) (vneg d) = qscale (qnorm2 (so3_exp eps d)) X.
Proof. unfold so3_retract. rewrite so3_exp_neg'. apply inv_mul_mul. Qed.
Lemma qscale_1 (X : quatR) : qscale 1 X = X.
Proof. unfold qscale. lie_ring. Qed.
(* closed-form branch: exact undo, for every X (unit or not) *)
Theorem so3_retract_undo_closed (eps : R) (X : quatR) (d : vec3R) : 0 <= eps -> eps < vnorm d ->
  so3_retract eps (so3_retract eps X d) (vneg d) = X.
Proof.
  intros He Hd. rewrite so3_retract_undo_general, so3_exp_unit_closed by assumption. apply qscale_1.
Qed.
(* the zero step is undone exactly, too *)
Theorem so3_retract_undo_zero (eps : R) (X : quatR) : 0 <= eps ->
  so3_retract eps (so3_retract eps X vzero) (vneg vzero) = X.
Proof.
  intros He. rewrite so3_retract_undo_general.
  replace (qnorm2 (so3_exp eps vzero)) with 1; [apply qscale_1|].
  assert (V0 : vnorm (vzero : vec3R) = 0).
  { unfold vnorm. cbn [tsqrt TransR]. replace (vdot _ _) with 0 by (lie_unfold; ring). apply sqrt_0. }
  assert (Hs : vnorm (vzero : vec3R) <= eps) by (rewrite V0; exact He).
  pose proof (so3_exp_unit_taylor eps vzero Hs) as H. cbv zeta in H.
  replace (vdot (vzero : vec3R) vzero) with 0 in H by (lie_unfold; ring). lra.
Qed.
(* Taylor branch: the scale factor is within theta^6/20000 of 1 *)
Theorem so3_retract_undo_small (eps : R) (X : quatR) (d : vec3R) : vnorm d <= eps -> eps <= 1 / 1024 ->
  exists k, so3_retract eps (so3_retract eps X d) (vneg d) = qscale k X /\ Rabs (k - 1) <= (vnorm d) ^ 6 / 20000.
Proof.
  intros Hd He. exists (qnorm2 (so3_exp eps d)). split; [apply so3_retract_undo_general|].
  now apply taylor_bound_elem.
Qed.
(* ... and it is NOT exact there: for 0 < |d| <= eps <= 1/1024 the restored quaternion differs from a non-zero X *)
Theorem so3_retract_undo_small_inexact (eps : R) (X : quatR) (d : vec3R) :
  0 < vnorm d -> vnorm d <= eps -> eps <= 1 / 1024 -> qnorm2 X <> 0 ->
  so3_retract eps (so3_retract eps X d) (vneg d) <> X.
Proof.
  intros H0 Hd He HX. rewrite so3_retract_undo_general.
  pose proof (so3_exp_unit_taylor eps d Hd) as H. cbv zeta in H. rewrite <- (vnorm_sq d) in H.
  set (t := vnorm d) in *. clearbody t. set (k := qnorm2 (so3_exp eps d)) in *. clearbody k.
  assert (Hk : 1 < k).
  { assert (0 < t * t <= 1 / 1048576) by nra. set (s := t * t) in *. clearbody s.
    assert (0 < s * s * s * (s * s - 60 * s + 640)) by (apply Rmult_lt_0_compat; [apply Rmult_lt_0_compat; nra | nra]).
    lra. }
  intros E. apply HX.
  assert (E2 : qnorm2 (qscale k X) = qnorm2 X) by now rewrite E.
  replace (qnorm2 (qscale k X)) with (k * k * qnorm2 X) in E2 by (unfold qscale; destruct X as [[[a b] c] w]; lie_unfold; ring).
  assert (1 < k * k) by nra. nra.
Qed.
