(* C02 (part 2): Log o Exp = id for rxso3 / sim3, Exp o Log = id on the four groups (regime 1 of SO3_Log),
   Log of the identity, generic 3x3 inverse facts, determinant of rxso3_Ws. *)
From Coq Require Import Reals Lra Psatz List Nsatz.
From Coquelicot Require Import Coquelicot.
From Interval Require Import Tactic.
Import ListNotations.
(* ExpODE2 defines its own [qv]: import the ExpODE files first so that Model.LieGroup.qv wins *)
From PV Require Import Proofs.ExpODE Proofs.ExpODE2 Proofs.ExpODE3.
From PV Require Import Base.Num Base.RTac Model.LieGroup Model.LieExp Model.LieLog Proofs.LieGroup Proofs.LieExp
  Proofs.LieLog.
Local Open Scope R_scope.
#[local] Remove Hints NumQ NumZ : typeclass_instances.

(* ------------------------------------------------------------------ generic 3x3 facts *)
Lemma mmul3_assoc (A B C : @mat3 R) : mmul3 (mmul3 A B) C = mmul3 A (mmul3 B C).
Proof. lie_ring. Qed.
Lemma mmul3_id_l (A : @mat3 R) : mmul3 mid3 A = A.
Proof. lie_ring. Qed.
Lemma mmul3_id_r (A : @mat3 R) : mmul3 A mid3 = A.
Proof. lie_ring. Qed.
Lemma mdet3_mul (A B : @mat3 R) : mdet3 (mmul3 A B) = mdet3 A * mdet3 B.
Proof. intros; destruct_tuples; lie_unfold; ring. Qed.
Lemma mdet3_id : mdet3 (@mid3 R _) = 1.
Proof. lie_unfold. ring. Qed.
Lemma mvmul_zero_r (A : @mat3 R) : mvmul A vzero = vzero.
Proof. lie_ring. Qed.

Lemma minv3_l (M : @mat3 R) : mdet3 M <> 0 -> mmul3 (minv3 M) M = mid3.
Proof.
  intros H. unfold minv3. destruct M as [[[[a b] c] [[d e] f]] [[g h] i]]. revert H. lie_unfold. intros H.
  split_pairs; field; exact H.
Qed.
Lemma minv3_r (M : @mat3 R) : mdet3 M <> 0 -> mmul3 M (minv3 M) = mid3.
Proof.
  intros H. unfold minv3. destruct M as [[[[a b] c] [[d e] f]] [[g h] i]]. revert H. lie_unfold. intros H.
  split_pairs; field; exact H.
Qed.
(* a left inverse of a 3x3 matrix is a right inverse *)
Lemma mmul3_inv_comm (A B : @mat3 R) : mmul3 B A = mid3 -> mmul3 A B = mid3.
Proof.
  intros H.
  assert (Hd : mdet3 A <> 0).
  { intros E. pose proof (mdet3_mul B A) as Hm. rewrite H, mdet3_id, E in Hm. lra. }
  assert (HB : B = minv3 A).
  { rewrite <- (mmul3_id_r B), <- (minv3_r A Hd), <- mmul3_assoc, H. apply mmul3_id_l. }
  rewrite HB. now apply minv3_r.
Qed.

(* ------------------------------------------------------------------ determinant of rxso3_Ws *)
(* det (A K + B K^2 + C I) = C ((C - B n)^2 + A^2 n),  n = |x|^2 *)
Lemma mdet3_poly_K (x y z A B C : R) :
  mdet3 (madd3 (madd3 (mscale3 A (skew (x, y, z))) (mscale3 B (mmul3 (skew (x, y, z)) (skew (x, y, z))))) (mscale3 C mid3))
  = C * ((C - B * (x * x + y * y + z * z)) * (C - B * (x * x + y * y + z * z)) + A * A * (x * x + y * y + z * z)).
Proof. lie_unfold. ring. Qed.

Lemma cos_lt_1_open (t : R) : 0 < t -> t < 2 * PI -> cos t < 1.
Proof.
  intros H0 H1. replace t with (2 * (t / 2)) by field. rewrite cos_2a_sin.
  assert (0 < sin (t / 2)) by (apply sin_gt_0; lra). nra.
Qed.
Lemma exp_neq_1 (s : R) : s <> 0 -> exp s <> 1.
Proof.
  intros Hs E. rewrite <- exp_0 in E. apply exp_inv in E. contradiction.
Qed.

Lemma absF_ltb_true (eps s : R) : eps < Rabs s -> ltb eps (absF s) = true.
Proof. intros H. rewrite absF_R. cbn. now apply Rltb_true. Qed.
Lemma absF_ltb_false (eps s : R) : Rabs s <= eps -> ltb eps (absF s) = false.
Proof. intros H. rewrite absF_R. cbn. now apply Rltb_false. Qed.

Lemma rxso3_Ws_det (eps : R) (phi : vec3R) (sg : R) : 0 <= eps -> eps < vnorm phi -> vnorm phi < 2 * PI ->
  mdet3 (rxso3_Ws eps (phi, sg)) <> 0.
Proof.
  intros He Hx Hpi. assert (Hx0 : vnorm phi <> 0) by lra. pose proof (vnorm_prod phi Hx0) as Hn. cbv zeta in Hn.
  destruct (Rlt_dec eps (Rabs sg)) as [Hs|Hs].
  - rewrite rxso3_Ws_is_Ws1 by assumption. unfold Ws1, Ws_th.
    set (t := vnorm phi) in *. clearbody t. destruct phi as [[x y] z]. cbn [vx vy vz fst snd] in Hn.
    rewrite mdet3_poly_K, Hn, !Rmult_1_l.
    assert (Hsg : sg <> 0) by (intros ->; rewrite Rabs_R0 in Hs; lra).
    pose proof (exp_neq_1 sg Hsg) as HE. pose proof (exp_pos sg) as HEp.
    pose proof (sin2_cos2 t) as Hsc. unfold Rsqr in Hsc. pose proof (COS_bound t) as [_ Hcb].
    set (E := exp sg) in *. set (S := sin t) in *. set (Co := cos t) in *. clearbody E S Co.
    assert (Hc : 0 < t * t + sg * sg) by nra.
    apply Rmult_integral_contrapositive. split.
    + unfold Rdiv. apply Rmult_integral_contrapositive. split; [lra|now apply Rinv_neq_0_compat].
    + match goal with |- ?L <> 0 =>
        replace L with (((E * Co - 1) * (E * Co - 1) + (E * S) * (E * S)) / (t * t + sg * sg)) by (field; lra) end.
      apply Rgt_not_eq. apply Rdiv_lt_0_compat; [|exact Hc].
      assert (E * Co <= E) by nra.
      assert ((E * Co - 1) * (E * Co - 1) + E * S * (E * S) = (E - 1) * (E - 1) + 2 * E * (1 - Co)) by nra.
      assert (0 < (E - 1) * (E - 1)) by nra. nra.
  - assert (Hs' : Rabs sg <= eps) by lra.
    unfold rxso3_Ws, rxso3_Ws_coef. cbn [fst snd]. rewrite (absF_ltb_false eps sg Hs').
    replace (ltb eps (vnorm phi)) with true by (symmetry; cbn; now apply Rltb_true).
    set (t := vnorm phi) in *. pose proof (cos_lt_1_open t ltac:(lra) Hpi) as Hc.
    pose proof (sin2_cos2 t) as Hsc. unfold Rsqr in Hsc. clearbody t.
    destruct phi as [[x y] z]. cbn [vx vy vz fst snd] in Hn.
    rewrite mdet3_poly_K, Hn. cbn [tsin tcos TransR]. num_unfold.
    set (S := sin t) in *. set (Co := cos t) in *. clearbody S Co.
    match goal with |- ?L <> 0 => replace L with ((2 - 2 * Co) / (t * t)) by (field_simplify_eq; [nra|lra]) end.
    apply Rgt_not_eq. apply Rdiv_lt_0_compat; nra.
Qed.

(* ------------------------------------------------------------------ Log o Exp = id: so3 (model Exp), rxso3, sim3 *)
Lemma vnorm_qv_exp_cf (x : vec3R) : 0 < vnorm x -> vnorm x < 2 * PI ->
  vnorm (qv (so3_exp_cf x)) = sin (vnorm x / 2).
Proof.
  intros H0 H1. unfold so3_exp_cf. cbn [qv fst]. rewrite vnorm_scale.
  assert (0 < sin (vnorm x / 2)) by (apply sin_gt_0; lra).
  rewrite Rabs_pos_eq by (left; apply Rdiv_lt_0_compat; lra). field. lra.
Qed.
Lemma log_exp_so3_model (eps : R) (x : vec3R) : 0 <= eps -> eps < vnorm x -> vnorm x < PI ->
  eps < sin (vnorm x / 2) -> eps < cos (vnorm x / 2) -> SO3_log eps (so3_exp eps x) = x.
Proof.
  intros He Hx Hpi Hs Hc. rewrite so3_exp_is_cf by auto. apply log_exp_so3; auto.
  rewrite vnorm_qv_exp_cf; lra.
Qed.
Lemma log_exp_rxso3 (eps : R) (x : vec3R * R) : 0 <= eps -> eps < vnorm (fst x) -> vnorm (fst x) < PI ->
  eps < sin (vnorm (fst x) / 2) -> eps < cos (vnorm (fst x) / 2) -> RxSO3_log eps (rxso3_exp eps x) = x.
Proof.
  intros He Hx Hpi Hs Hc. destruct x as [phi sg]. cbn [fst snd] in *. unfold RxSO3_log, rxso3_exp. cbn [fst snd].
  rewrite log_exp_so3_model by auto. cbn [tln texp TransR]. now rewrite ln_exp.
Qed.
Lemma log_exp_sim3 (eps : R) (x : vec3R * (vec3R * R)) : 0 <= eps ->
  eps < vnorm (fst (snd x)) -> vnorm (fst (snd x)) < PI ->
  eps < sin (vnorm (fst (snd x)) / 2) -> eps < cos (vnorm (fst (snd x)) / 2) ->
  Sim3_log eps (sim3_exp eps x) = x.
Proof.
  intros He Hx Hpi Hs Hc. destruct x as [tau [phi sg]]. cbn [fst snd] in *. unfold Sim3_log, sim3_exp. cbn [fst snd].
  rewrite (log_exp_rxso3 eps (phi, sg)) by auto.
  rewrite mvmul_mmul3, minv3_l, mvmul_id; [reflexivity|]. apply rxso3_Ws_det; auto. lra.
Qed.
(* the sim3 coupling matrix is inverted exactly: minv3 (Ws) Ws = I in both regimes of sigma *)
Lemma Ws_inv_Ws (eps : R) (phi : vec3R) (sg : R) : 0 <= eps -> eps < vnorm phi -> vnorm phi < 2 * PI ->
  mmul3 (minv3 (rxso3_Ws eps (phi, sg))) (rxso3_Ws eps (phi, sg)) = mid3 /\
  mmul3 (rxso3_Ws eps (phi, sg)) (minv3 (rxso3_Ws eps (phi, sg))) = mid3.
Proof. intros He Hx Hpi. pose proof (rxso3_Ws_det eps phi sg He Hx Hpi). split; [now apply minv3_l|now apply minv3_r]. Qed.

(* ------------------------------------------------------------------ Exp o Log = id *)
Lemma unit_atan (vn w : R) : 0 < vn -> 0 < w -> vn * vn + w * w = 1 ->
  0 < atan (vn / w) < PI / 2 /\ sin (atan (vn / w)) = vn /\ cos (atan (vn / w)) = w.
Proof.
  intros Hvn Hw Hu.
  assert (Ha : 0 < atan (vn / w) < PI / 2).
  { pose proof (atan_bound (vn / w)). split; [|lra]. rewrite <- atan_0. apply atan_increasing.
    apply Rdiv_lt_0_compat; lra. }
  assert (Hsq : sqrt (1 + (vn / w)²) = / w).
  { replace (1 + (vn / w)²) with (/ (w * w)) by (unfold Rsqr; field_simplify_eq; [nra|lra]).
    rewrite sqrt_inv_sq by lra. now rewrite Rabs_pos_eq by lra. }
  split; [exact Ha|]. split.
  - rewrite sin_atan, Hsq. field. lra.
  - rewrite cos_atan, Hsq. field. lra.
Qed.
Lemma SO3_log_norm_pos (eps : R) (q : quatR) : 0 <= eps -> eps < vnorm (qv q) -> eps < qw q ->
  vnorm (SO3_log eps q) = 2 * atan (vnorm (qv q) / qw q).
Proof.
  intros He Hv Hw. unfold SO3_log, SO3_log_factor. branch_true. rewrite absF_R, (Rabs_pos_eq (qw q)) by lra. branch_true.
  rewrite vnorm_scale. set (vn := vnorm (qv q)) in *. num_simpl.
  assert (0 < atan (vn / qw q)).
  { rewrite <- atan_0. apply atan_increasing. apply Rdiv_lt_0_compat; lra. }
  rewrite Rabs_pos_eq; [field; lra|]. apply Rmult_le_pos; [lra|left; apply Rinv_0_lt_compat; lra].
Qed.
Lemma qneg_invol (q : quatR) : qneg (qneg q) = q.
Proof. unfold qneg. destruct q as [[[x y] z] w]. cbn [qv qw fst snd]. lie_unfold. split_pairs; ring. Qed.
Lemma unitq_qneg (q : quatR) : unitq q -> unitq (qneg q).
Proof.
  unfold unitq, qneg, qnorm2. cbn [qv qw fst snd]. intros <-. destruct (qv q) as [[x y] z]. lie_unfold. ring.
Qed.
Lemma unitq_prod (q : quatR) : unitq q -> vnorm (qv q) * vnorm (qv q) + qw q * qw q = 1.
Proof. unfold unitq, qnorm2. intros H. now rewrite vnorm_sq. Qed.

(* the rotation angle of Log q lies strictly between eps and pi (regime 1, unit q) *)
Lemma SO3_log_norm_gt_eps (eps : R) (q : quatR) : 0 <= eps -> eps < vnorm (qv q) -> eps < Rabs (qw q) -> unitq q ->
  eps < vnorm (SO3_log eps q).
Proof.
  assert (Hpos : forall q : quatR, 0 <= eps -> eps < vnorm (qv q) -> eps < qw q -> unitq q -> eps < vnorm (SO3_log eps q)).
  { intros p He Hv Hw Hu. rewrite SO3_log_norm_pos by auto.
    destruct (unit_atan (vnorm (qv p)) (qw p)) as (Ha & Hs & _); [lra|lra|now apply unitq_prod|].
    pose proof (sin_lt_x _ (proj1 Ha)). lra. }
  intros He Hv Hw Hu. destruct (Rle_or_lt 0 (qw q)) as [Hp|Hn].
  - apply Hpos; auto. now rewrite Rabs_pos_eq in Hw.
  - rewrite <- (SO3_log_neg eps q) by auto. rewrite Rabs_left in Hw by lra. apply Hpos; [exact He| | |now apply unitq_qneg].
    + unfold qneg; cbn [qv fst]. now rewrite vnorm_neg.
    + unfold qneg; cbn [qw snd]. clear - Hw. lra.
Qed.

Lemma exp_log_pos_model (eps : R) (q : quatR) : 0 <= eps -> eps < vnorm (qv q) -> eps < qw q -> unitq q ->
  so3_exp eps (SO3_log eps q) = q.
Proof.
  intros He Hv Hw Hu. rewrite so3_exp_is_cf; [now apply exp_log_pos|].
  apply SO3_log_norm_gt_eps; auto. rewrite Rabs_pos_eq; lra.
Qed.
Lemma exp_log_neg_model (eps : R) (q : quatR) : 0 <= eps -> eps < vnorm (qv q) -> qw q < - eps -> unitq q ->
  so3_exp eps (SO3_log eps q) = qneg q.
Proof.
  intros He Hv Hw Hu. rewrite so3_exp_is_cf; [now apply exp_log_neg|].
  apply SO3_log_norm_gt_eps; auto. rewrite Rabs_left; lra.
Qed.
Lemma exp_log_same_rotation_model (eps : R) (q : quatR) :
  0 <= eps -> eps < vnorm (qv q) -> eps < Rabs (qw q) -> unitq q ->
  SO3_matrix (so3_exp eps (SO3_log eps q)) = SO3_matrix q.
Proof.
  intros He Hv Hw Hu. destruct (Rle_or_lt 0 (qw q)) as [Hp|Hn].
  - rewrite exp_log_pos_model; auto. rewrite Rabs_pos_eq in Hw; auto.
  - rewrite exp_log_neg_model; auto; [apply qneg_same_rotation|]. rewrite Rabs_left in Hw; lra.
Qed.

(* SE3: the translation is restored exactly (Jl Jl_inv = I), the rotation goes through so3 *)
Lemma exp_log_SE3_gen (eps : R) (X : se3R) : 0 <= eps -> eps < vnorm (qv (snd X)) -> eps < Rabs (qw (snd X)) ->
  unitq (snd X) -> se3_exp eps (SE3_log eps X) = (fst X, so3_exp eps (SO3_log eps (snd X))).
Proof.
  intros He Hv Hw Hu. destruct X as [t q]. cbn [fst snd] in *. unfold se3_exp, SE3_log. cbn [fst snd].
  pose proof (SO3_log_norm_gt_eps eps q He Hv Hw Hu) as Hlo. pose proof (SO3_log_norm_regime1 eps q Hv Hw He) as Hhi.
  pose proof PI_RGT_0.
  rewrite mvmul_mmul3, (mmul3_inv_comm _ _ (so3_Jl_inv_Jl eps (SO3_log eps q) He Hlo ltac:(lra))), mvmul_id. reflexivity.
Qed.
(* RxSO3: the scale is restored exactly for every positive scale, in every regime of the rotation *)
Lemma exp_log_RxSO3_gen (eps : R) (X : rxso3R) : 0 < snd X ->
  rxso3_exp eps (RxSO3_log eps X) = (so3_exp eps (SO3_log eps (fst X)), snd X).
Proof.
  intros Hs. destruct X as [q s]. cbn [fst snd] in *. unfold rxso3_exp, RxSO3_log. cbn [fst snd tln texp TransR].
  now rewrite exp_ln.
Qed.
(* Sim3: Ws (Ws^-1 t) = t *)
Lemma exp_log_Sim3_gen (eps : R) (X : sim3R) : 0 <= eps -> eps < vnorm (qv (fst (snd X))) -> eps < Rabs (qw (fst (snd X))) ->
  unitq (fst (snd X)) -> 0 < snd (snd X) ->
  sim3_exp eps (Sim3_log eps X) = (fst X, (so3_exp eps (SO3_log eps (fst (snd X))), snd (snd X))).
Proof.
  intros He Hv Hw Hu Hs. destruct X as [t [q s]]. cbn [fst snd] in *. unfold sim3_exp, Sim3_log. cbn [fst snd].
  pose proof (SO3_log_norm_gt_eps eps q He Hv Hw Hu) as Hlo. pose proof (SO3_log_norm_regime1 eps q Hv Hw He) as Hhi.
  pose proof PI_RGT_0.
  rewrite (exp_log_RxSO3_gen eps (q, s) Hs). cbn [fst snd].
  rewrite mvmul_mmul3. unfold RxSO3_log. cbn [fst snd].
  rewrite minv3_r, mvmul_id; [reflexivity|]. apply rxso3_Ws_det; auto. lra.
Qed.

(* ------------------------------------------------------------------ Log of the identity is exactly zero (every eps) *)
Lemma vscale_zero (k : R) : vscale k vzero = vzero.
Proof. lie_unfold. split_pairs; ring. Qed.
Lemma SO3_log_id (eps : R) : SO3_log eps SO3_id = vzero.
Proof. unfold SO3_log, SO3_id. cbn [qv qw fst snd]. apply vscale_zero. Qed.
Lemma SE3_log_id (eps : R) : SE3_log eps SE3_id = (vzero, vzero).
Proof. unfold SE3_log, SE3_id. cbn [fst snd]. rewrite SO3_log_id. now rewrite mvmul_zero_r. Qed.
Lemma RxSO3_log_id (eps : R) : RxSO3_log eps RxSO3_id = (vzero, 0).
Proof. unfold RxSO3_log, RxSO3_id. cbn [fst snd]. rewrite SO3_log_id. cbn [tln TransR one NumR]. now rewrite ln_1. Qed.
Lemma Sim3_log_id (eps : R) : Sim3_log eps Sim3_id = (vzero, (vzero, 0)).
Proof. unfold Sim3_log, Sim3_id. cbn [fst snd]. rewrite RxSO3_log_id. now rewrite mvmul_zero_r. Qed.
(* and Exp of zero is exactly the identity (Taylor branch), so Exp (Log id) = id *)
Lemma vnorm_zero : vnorm (@vzero R _) = 0.
Proof. unfold vnorm. cbn [tsqrt TransR]. replace (vdot vzero vzero) with 0 by (lie_unfold; ring). apply sqrt_0. Qed.
Lemma so3_exp_zero (eps : R) : 0 <= eps -> so3_exp eps vzero = SO3_id.
Proof.
  intros He. unfold so3_exp, so3_exp_coef. rewrite vnorm_zero.
  replace (ltb eps 0) with false by (symmetry; cbn; now apply Rltb_false).
  cbn [fst snd]. rewrite vscale_zero. unfold SO3_id. apply pair_eq; [reflexivity|]. num_unfold. field.
Qed.

(* ------------------------------------------------------------------ range of Log: regime 3, and all regimes together *)
Lemma SO3_log_norm_regime3 (eps : R) (q : quatR) : 0 <= eps -> eps <= 1 / 2 -> vnorm (qv q) <= eps -> unitq q ->
  vnorm (SO3_log eps q) <= 2.
Proof.
  intros He He2 Hv Hu. pose proof (unitq_prod q Hu) as Hp. pose proof (vnorm_nonneg (qv q)) as Hn.
  unfold SO3_log, SO3_log_factor.
  replace (ltb eps (vnorm (qv q))) with false by (symmetry; cbn; apply Rltb_false; exact Hv).
  rewrite vnorm_scale.
  set (vn := vnorm (qv q)) in *. clearbody vn. set (w := qw q) in *. clearbody w. num_simpl.
  assert (Hw2 : 3 / 4 <= w * w) by nra.
  assert (Hw0 : w <> 0) by nra.
  set (u := / w). assert (Hu1 : u * w = 1) by (unfold u; field; auto).
  replace (IZR 2 * (1 / w - vn * vn / (IZR 3 * (w * w * w)))) with (2 * u * (1 - vn * vn * (u * u) / 3)) by (unfold u; field; auto).
  assert (Hu2 : u * u <= 4 / 3).
  { assert (E : (u * u) * (w * w) = 1) by nra. nra. }
  assert (Hm : 0 <= vn * vn * (u * u) <= 1 / 3) by nra.
  set (m := vn * vn * (u * u)) in *. clearbody m.
  rewrite !Rabs_mult, (Rabs_pos_eq 2), (Rabs_pos_eq (1 - m / 3)) by lra.
  assert (Ha : Rabs u * Rabs u = u * u) by (rewrite <- Rabs_mult; apply Rabs_pos_eq; nra).
  pose proof (Rabs_pos u) as Hap. set (au := Rabs u) in *. clearbody au.
  assert (H1 : au <= 6 / 5) by nra.
  assert (H2 : 0 <= au * (1 - m / 3) <= 6 / 5) by nra.
  set (k := au * (1 - m / 3)) in *.
  replace (2 * au * (1 - m / 3) * vn) with (2 * (k * vn)) by (unfold k; ring).
  assert (k * vn <= 6 / 5 * (1 / 2)) by (apply Rmult_le_compat; lra). lra.
Qed.
Lemma SO3_log_norm_le_pi (eps : R) (q : quatR) : 0 <= eps -> eps <= 1 / 2 -> unitq q -> vnorm (SO3_log eps q) <= PI.
Proof.
  intros He He2 Hu. destruct (Rlt_or_le eps (vnorm (qv q))) as [Hv|Hv].
  - destruct (Rlt_or_le eps (Rabs (qw q))) as [Hw|Hw].
    + left. now apply SO3_log_norm_regime1.
    + right. now apply SO3_log_norm_regime2.
  - pose proof (SO3_log_norm_regime3 eps q He He2 Hv Hu). pose proof PI2_3_2. lra.
Qed.

(* ------------------------------------------------------------------ rotation angle pi (regime 2 of SO3_Log) *)
Lemma pm_R (w : R) : (pm w = 1 /\ 0 <= w) \/ (pm w = -1 /\ w < 0).
Proof. unfold pm. cbn. unfold Rltb. destruct (Rlt_dec w 0); [right|left]; split; try reflexivity; lra. Qed.
Lemma exp_log_regime2 (eps : R) (q : quatR) : 0 <= eps -> eps < PI -> eps < vnorm (qv q) -> Rabs (qw q) <= eps ->
  so3_exp eps (SO3_log eps q) = (vscale (pm (qw q) / vnorm (qv q)) (qv q), 0).
Proof.
  intros He Hpi Hv Hw. pose proof (SO3_log_norm_regime2 eps q Hv Hw He) as Hn.
  rewrite so3_exp_is_cf by (rewrite Hn; exact Hpi). unfold so3_exp_cf. rewrite Hn.
  replace (PI / 2) with (PI / 2) by reflexivity. rewrite sin_PI2, cos_PI2.
  unfold SO3_log, SO3_log_factor. branch_true. rewrite absF_R. branch_false.
  set (vn := vnorm (qv q)) in *. assert (Hvn : vn <> 0) by lra. pose proof PI_RGT_0 as Hp. clearbody vn.
  generalize (pm (qw q)). intros s. num_simpl.
  apply pair_eq; [|reflexivity]. destruct (qv q) as [[x y] z]. lie_unfold. split_pairs; field; lra.
Qed.
(* exactly pi (w = 0): Exp (Log q) = q, and |Log q| = pi *)
Lemma exp_log_at_pi (eps : R) (q : quatR) : 0 <= eps -> eps < 1 -> unitq q -> qw q = 0 ->
  so3_exp eps (SO3_log eps q) = q /\ vnorm (SO3_log eps q) = PI.
Proof.
  intros He He1 Hu Hw. pose proof (unitq_prod q Hu) as Hp. rewrite Hw in Hp.
  pose proof (vnorm_nonneg (qv q)) as Hn.
  assert (Hv1 : vnorm (qv q) = 1) by nra.
  assert (Hv : eps < vnorm (qv q)) by lra.
  assert (Hw' : Rabs (qw q) <= eps) by (rewrite Hw, Rabs_R0; exact He).
  split; [|now apply SO3_log_norm_regime2].
  pose proof PI2_3_2 as Hpi.
  rewrite exp_log_regime2 by (auto; lra). rewrite Hv1, Hw.
  destruct (pm_R 0) as [[E _]|[_ Hc]]; [|lra]. rewrite E.
  destruct q as [[[x y] z] w]. cbn [qv qw fst snd] in *. subst w. lie_unfold. split_pairs; field.
Qed.
(* near pi (|w| <= eps): Exp (Log q) is within sqrt 2 eps (quaternion distance) of q resp. -q *)
Definition qscale (s : R) (q : quatR) : quatR := (vscale s (qv q), s * qw q).
Definition qdist2 (p q : quatR) : R := vdot (vsub (qv p) (qv q)) (vsub (qv p) (qv q)) + (qw p - qw q) * (qw p - qw q).
Lemma qscale_1 (q : quatR) : qscale 1 q = q.
Proof. unfold qscale. destruct q as [[[x y] z] w]. cbn [qv qw fst snd]. lie_unfold. split_pairs; ring. Qed.
Lemma qscale_m1 (q : quatR) : qscale (-1) q = qneg q.
Proof. unfold qscale, qneg. destruct q as [[[x y] z] w]. cbn [qv qw fst snd]. lie_unfold. split_pairs; ring. Qed.
Lemma exp_log_near_pi (eps : R) (q : quatR) : 0 <= eps -> eps < 1 / 2 -> unitq q -> eps < vnorm (qv q) -> Rabs (qw q) <= eps ->
  qdist2 (so3_exp eps (SO3_log eps q)) (qscale (pm (qw q)) q) <= 2 * (eps * eps).
Proof.
  intros He He1 Hu Hv Hw. pose proof PI2_3_2 as Hpi. rewrite exp_log_regime2 by (auto; lra).
  pose proof (unitq_prod q Hu) as Hp. pose proof (vnorm_sq (qv q)) as Hs.
  assert (Hs2 : pm (qw q) * pm (qw q) = 1) by (destruct (pm_R (qw q)) as [[E _]|[E _]]; rewrite E; ring).
  set (s := pm (qw q)) in *. clearbody s. set (vn := vnorm (qv q)) in *. clearbody vn.
  assert (Hw2 : qw q * qw q <= eps * eps).
  { destruct (Rcase_abs (qw q)) as [H|H]; [rewrite Rabs_left in Hw by lra | rewrite Rabs_right in Hw by lra]; nra. }
  unfold qdist2, qscale. cbn [qv qw fst snd].
  set (w := qw q) in *. clearbody w.
  replace (vdot (vsub (vscale (s / vn) (qv q)) (vscale s (qv q))) (vsub (vscale (s / vn) (qv q)) (vscale s (qv q))))
    with ((s / vn - s) * (s / vn - s) * vdot (qv q) (qv q)) by (destruct (qv q) as [[x y] z]; lie_unfold; ring).
  rewrite <- Hs.
  replace ((s / vn - s) * (s / vn - s) * (vn * vn)) with ((s * s) * ((1 - vn) * (1 - vn))) by (field; lra).
  rewrite Hs2.
  replace ((0 - s * w) * (0 - s * w)) with ((s * s) * (w * w)) by ring. rewrite Hs2.
  assert (Hvn1 : vn <= 1) by nra.
  assert (H1 : 1 - vn <= w * w) by nra.
  clear - Hp H1 Hw2 Hvn1 Hv He. nra.
Qed.

(* ------------------------------------------------------------------ Exp (Log X) is the same transformation as X
   (both hemispheres): equality of the matrices the library builds *)
Lemma exp_log_SE3_matrix (eps : R) (X : se3R) : 0 <= eps -> eps < vnorm (qv (snd X)) -> eps < Rabs (qw (snd X)) ->
  unitq (snd X) -> matrix4 SE3_act4 (se3_exp eps (SE3_log eps X)) = matrix4 SE3_act4 X.
Proof.
  intros He Hv Hw Hu. rewrite exp_log_SE3_gen by auto. rewrite !SE3_matrix_blocks. cbn [fst snd].
  now rewrite exp_log_same_rotation_model.
Qed.
Lemma exp_log_RxSO3_matrix (eps : R) (X : rxso3R) : 0 <= eps -> eps < vnorm (qv (fst X)) -> eps < Rabs (qw (fst X)) ->
  unitq (fst X) -> 0 < snd X -> matrix4 RxSO3_act4 (rxso3_exp eps (RxSO3_log eps X)) = matrix4 RxSO3_act4 X.
Proof.
  intros He Hv Hw Hu Hs. rewrite exp_log_RxSO3_gen by auto. rewrite !RxSO3_matrix4_blocks. cbn [fst snd].
  now rewrite exp_log_same_rotation_model.
Qed.
Lemma exp_log_Sim3_matrix (eps : R) (X : sim3R) : 0 <= eps -> eps < vnorm (qv (fst (snd X))) ->
  eps < Rabs (qw (fst (snd X))) -> unitq (fst (snd X)) -> 0 < snd (snd X) ->
  matrix4 Sim3_act4 (sim3_exp eps (Sim3_log eps X)) = matrix4 Sim3_act4 X.
Proof.
  intros He Hv Hw Hu Hs. rewrite exp_log_Sim3_gen by auto. rewrite !Sim3_matrix_blocks. cbn [fst snd].
  now rewrite exp_log_same_rotation_model.
Qed.
(* w > eps: Exp (Log X) = X on the nose *)
Lemma exp_log_SE3_pos (eps : R) (X : se3R) : 0 <= eps -> eps < vnorm (qv (snd X)) -> eps < qw (snd X) ->
  unitq (snd X) -> se3_exp eps (SE3_log eps X) = X.
Proof.
  intros He Hv Hw Hu. rewrite exp_log_SE3_gen by (auto; rewrite Rabs_pos_eq; lra).
  rewrite exp_log_pos_model by auto. now destruct X.
Qed.
Lemma exp_log_RxSO3_pos (eps : R) (X : rxso3R) : 0 <= eps -> eps < vnorm (qv (fst X)) -> eps < qw (fst X) ->
  unitq (fst X) -> 0 < snd X -> rxso3_exp eps (RxSO3_log eps X) = X.
Proof.
  intros He Hv Hw Hu Hs. rewrite exp_log_RxSO3_gen by auto. rewrite exp_log_pos_model by auto. now destruct X.
Qed.
Lemma exp_log_Sim3_pos (eps : R) (X : sim3R) : 0 <= eps -> eps < vnorm (qv (fst (snd X))) -> eps < qw (fst (snd X)) ->
  unitq (fst (snd X)) -> 0 < snd (snd X) -> sim3_exp eps (Sim3_log eps X) = X.
Proof.
  intros He Hv Hw Hu Hs. rewrite exp_log_Sim3_gen by (auto; rewrite Rabs_pos_eq; lra).
  rewrite exp_log_pos_model by auto. destruct X as [t [q s]]. reflexivity.
Qed.

(* ------------------------------------------------------------------ q and -q have the same Log: SE3, RxSO3, Sim3 *)
Lemma SE3_log_neg (eps : R) (X : se3R) : 0 <= eps -> eps < vnorm (qv (snd X)) -> eps < Rabs (qw (snd X)) ->
  SE3_log eps (fst X, qneg (snd X)) = SE3_log eps X.
Proof. intros He Hv Hw. unfold SE3_log. cbn [fst snd]. now rewrite SO3_log_neg. Qed.
Lemma RxSO3_log_neg (eps : R) (X : rxso3R) : 0 <= eps -> eps < vnorm (qv (fst X)) -> eps < Rabs (qw (fst X)) ->
  RxSO3_log eps (qneg (fst X), snd X) = RxSO3_log eps X.
Proof. intros He Hv Hw. unfold RxSO3_log. cbn [fst snd]. now rewrite SO3_log_neg. Qed.
Lemma Sim3_log_neg (eps : R) (X : sim3R) : 0 <= eps -> eps < vnorm (qv (fst (snd X))) -> eps < Rabs (qw (fst (snd X))) ->
  Sim3_log eps (fst X, (qneg (fst (snd X)), snd (snd X))) = Sim3_log eps X.
Proof. intros He Hv Hw. unfold Sim3_log. cbn [fst snd]. now rewrite (RxSO3_log_neg eps (snd X)). Qed.
