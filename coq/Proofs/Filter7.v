(* C13, seventh file: the specification [kf_update] itself.  The Kalman update used as the spec of the
   EKF / UKF theorems is the Bayesian estimate of the linear-Gaussian model in the following sense:
   its mean is the UNIQUE minimiser of the negative log posterior
        J(z) = (z - xm)^T Pm^-1 (z - xm) + (y - C z - D u - c2)^T R^-1 (y - C z - D u - c2)
   and its covariance is the inverse of the Hessian  Pm^-1 + C^T R^-1 C  (information form).
   (That a Gaussian's mean is its mode and its covariance the inverse Hessian is measure theory: not here.)
   Also: on a linear system the UKF covariance is symmetric positive definite for EVERY k > -n. *)
From Coq Require Import Reals Lra Lia List Arith ZArith Psatz.
From PV Require Import Base.Num Base.Mat Model.Filter Proofs.Filter Proofs.Filter2.
Import ListNotations.
#[local] Remove Hints NumQ NumZ : typeclass_instances.
Local Open Scope R_scope.

(* ------------------------------------------------------------------ the inverse of an SPD matrix is SPD *)
Lemma SPD_inverse n (S X : matR) : SPD n S -> wf n n X -> mmul S X = mid n -> mmul X S = mid n -> SPD n X.
Proof.
  intros (WS & SS & PS) WX I1 I2.
  assert (Hn : (0 < n)%nat) by (eapply wf_pos_r; exact WS).
  split; [exact WX|]. split; [now apply (minv_sym n S)|].
  intros x Hx Hnz. set (v := mapply X x).
  assert (Lv : length v = n) by (unfold v; now apply (length_mapply n n)).
  assert (Ev : mapply S v = x).
  { unfold v. rewrite <- (mapply_mmul n n n) by assumption. rewrite I1. now apply mapply_mid. }
  assert (E : qform X x = qform S v).
  { unfold qform. fold v. rewrite Ev. apply vdot_comm. congruence. }
  rewrite E. apply PS; [assumption|].
  destruct (nonzero_dec v) as [H|H]; [exact H|]. exfalso.
  destruct Hnz as [i [Hi Hne]]. apply Hne. rewrite <- Ev.
  apply (mapply_zero_vec n n); try assumption. lia.
Qed.

Lemma msub_of_madd n m (A B C : matR) : wf n m A -> wf n m B -> wf n m C -> A = madd B C -> msub A B = C.
Proof.
  intros HA HB HC E. apply (mat_ext n m); [eauto with wf | assumption |].
  intros i j Hi Hj. rewrite (mget_msub n m) by assumption. rewrite E.
  rewrite (mget_madd n m) by assumption. mnum. lra.
Qed.

Lemma PD_zero_qform n (M : matR) x : PD n M -> length x = n -> qform M x <= 0 ->
  forall i, (i < n)%nat -> vget x i = 0.
Proof.
  intros PM Hx Hq. destruct (nonzero_dec x) as [H|H].
  - specialize (PM x Hx H). lra.
  - intros i Hi. apply H. lia.
Qed.

(* the negative log posterior (up to constants), with given inverses Pmi = Pm^-1, Ri = R^-1 *)
Definition map_cost (Pmi Ri C D : matR) (c2 xm y u z : list R) : R :=
  qform Pmi (vminus z xm) + qform Ri (vminus y (lin_f C D c2 z u)).

Section KFmap.
Variables pinv pinvn : matR -> matR.
Variables n m p : nat.
Hypothesis pinv_spec : pinv_ok m pinv.
Hypothesis pinvn_spec : pinv_ok n pinvn.
Variables Pm C D Rm : matR.
Variables c2 xm y u : list R.
Hypothesis HPm : SPD n Pm.
Hypothesis HC : wf m n C.
Hypothesis HD : wf m p D.
Hypothesis Hc2 : length c2 = m.
Hypothesis HR : SPD m Rm.
Hypothesis Hxm : length xm = n.
Hypothesis Hy : length y = m.
Hypothesis Hu : length u = p.

Let S := madd (mmul (mmul C Pm) (mtr C)) Rm.
Let Si := pinv S.
Let K := mmul (mmul Pm (mtr C)) Si.
Let e := vminus y (lin_f C D c2 xm u).
Let x' := vplus xm (mapply K e).
Let P' := mmul (msub (mid n) (mmul K C)) Pm.
Let Ri := pinv Rm.
Let Pmi := pinvn Pm.
Let J := map_cost Pmi Ri C D c2 xm y u.

Lemma kfm_update_eq : kf_update pinv C D c2 Rm xm Pm u y = (x', P').
Proof.
  unfold kf_update. fold S Si K e x'. rewrite (wf_rows n n Pm (proj1 HPm)). reflexivity.
Qed.

Let WPm : wf n n Pm := proj1 HPm.
Let SPm : msym Pm := proj1 (proj2 HPm).
Let WR : wf m m Rm := proj1 HR.

Lemma kfm_n_pos : (0 < n)%nat. Proof. eapply wf_pos_r; exact WPm. Qed.
Lemma kfm_m_pos : (0 < m)%nat. Proof. eapply wf_pos_r; exact HC. Qed.

Lemma kfm_S_spd : SPD m S.
Proof.
  unfold S. pose proof HR as (_ & SR & PR). apply SPD_of_psd_plus_pd; try assumption.
  - eauto 8 with wf.
  - now apply (msym_congr m n).
  - apply (PSD_congr m n); try assumption. apply PD_PSD; [assumption | exact (proj2 (proj2 HPm))].
Qed.

Lemma kfm_Si : wf m m Si /\ mmul S Si = mid m /\ mmul Si S = mid m.
Proof. apply pinv_spec. exact kfm_S_spd. Qed.
Lemma kfm_Ri : wf m m Ri /\ mmul Rm Ri = mid m /\ mmul Ri Rm = mid m.
Proof. apply pinv_spec. exact HR. Qed.
Lemma kfm_Pmi : wf n n Pmi /\ mmul Pm Pmi = mid n /\ mmul Pmi Pm = mid n.
Proof. apply pinvn_spec. exact HPm. Qed.
Lemma kfm_Ri_spd : SPD m Ri.
Proof. destruct kfm_Ri as (W & I1 & I2). now apply (SPD_inverse m Rm). Qed.
Lemma kfm_Pmi_spd : SPD n Pmi.
Proof. destruct kfm_Pmi as (W & I1 & I2). now apply (SPD_inverse n Pm). Qed.

Lemma kfm_K_wf : wf n m K.
Proof. destruct kfm_Si as (W & _). unfold K. eauto 8 with wf. Qed.

(* K S = Pm C^T *)
Lemma kfm_KS : mmul K S = mmul Pm (mtr C).
Proof.
  destruct kfm_Si as (W & I1 & I2). destruct kfm_S_spd as (WS & _).
  unfold K. rewrite (mmul_assoc n m m m) by eauto 8 with wf. rewrite I2.
  apply (mmul_mid_r n m). eauto with wf.
Qed.

(* R S^-1 + C K = I *)
Lemma kfm_RSi_CK : madd (mmul Rm Si) (mmul C K) = mid m.
Proof.
  destruct kfm_Si as (W & I1 & I2).
  assert (E : mmul C K = mmul (mmul (mmul C Pm) (mtr C)) Si).
  { unfold K. rewrite <- (mmul_assoc m n m m) by eauto 8 with wf.
    rewrite <- (mmul_assoc m n n m) by eauto 8 with wf. reflexivity. }
  rewrite E. rewrite <- (mmul_madd_l m m m) by eauto 8 with wf.
  rewrite (madd_comm m m Rm) by eauto 8 with wf. exact I1.
Qed.

Lemma kfm_e_len : length e = m. Proof. unfold e. now rewrite length_vminus. Qed.
Lemma kfm_linf_len z : length (lin_f C D c2 z u) = m.
Proof. unfold lin_f. rewrite !length_vplus. now apply (length_mapply m n). Qed.
Lemma kfm_x'_len : length x' = n. Proof. unfold x'. now rewrite length_vplus. Qed.
Lemma kfm_Ke_len : length (mapply K e) = n. Proof. apply (length_mapply n m). exact kfm_K_wf. Qed.

(* the innovation at the posterior mean:  y - h(x') = e - C K e = R S^-1 e *)
Lemma kfm_post_innovation : vminus y (lin_f C D c2 x' u) = mapply Rm (mapply Si e).
Proof.
  destruct kfm_Si as (W & _). assert (WK := kfm_K_wf). assert (Le := kfm_e_len). assert (LK := kfm_Ke_len).
  assert (E1 : vminus y (lin_f C D c2 x' u) = vminus e (mapply (mmul C K) e)).
  { apply (vec_ext m); [now rewrite length_vminus | now rewrite length_vminus |].
    intros i Hi. rewrite !vget_vminus by lia.
    assert (Ee : vget e i = vget y i - vget (lin_f C D c2 xm u) i) by (unfold e; now rewrite vget_vminus by lia).
    rewrite Ee. unfold lin_f, x'. rewrite (mapply_vplus m n) by assumption.
    rewrite !vget_vplus; rewrite ?length_vplus, ?(length_mapply m n C) by assumption; try lia.
    rewrite (mapply_mmul m n m) by assumption. mnum. lra. }
  rewrite E1.
  assert (E2 : vplus (mapply (mmul Rm Si) e) (mapply (mmul C K) e) = e).
  { rewrite <- (mapply_madd m m) by eauto 8 with wf. rewrite kfm_RSi_CK. apply mapply_mid; [exact kfm_m_pos | assumption]. }
  rewrite <- (mapply_mmul m m m) by assumption.
  apply (vec_ext m); [now rewrite length_vminus | apply (length_mapply m m); eauto with wf |].
  intros i Hi. rewrite vget_vminus by lia.
  assert (E3 : vget (vplus (mapply (mmul Rm Si) e) (mapply (mmul C K) e)) i = vget e i) by now rewrite E2.
  rewrite vget_vplus in E3 by (rewrite (length_mapply m m) by eauto with wf; lia). mnum. lra.
Qed.

(* the normal equation:  Pm^-1 (x' - xm) = C^T R^-1 (y - h(x'))  ( = C^T S^-1 e ) *)
Lemma kfm_normal_eq :
  mapply Pmi (vminus x' xm) = mapply (mtr C) (mapply Si e) /\
  mapply (mtr C) (mapply Ri (vminus y (lin_f C D c2 x' u))) = mapply (mtr C) (mapply Si e).
Proof.
  destruct kfm_Si as (W & _). destruct kfm_Ri as (WRi & _ & IR). destruct kfm_Pmi as (WPi & _ & IP).
  assert (WK := kfm_K_wf). assert (Le := kfm_e_len). assert (LK := kfm_Ke_len).
  assert (LSe : length (mapply Si e) = m) by now apply (length_mapply m m).
  split.
  - assert (Ea : vminus x' xm = mapply K e).
    { apply (vec_ext n); [rewrite length_vminus; exact kfm_x'_len | assumption |].
      intros i Hi. rewrite vget_vminus by (rewrite kfm_x'_len; lia). unfold x'. rewrite vget_vplus by lia. mnum. lra. }
    rewrite Ea. unfold K.
    rewrite (mapply_mmul n m m) by eauto with wf.
    rewrite (mapply_mmul n n m) by eauto with wf.
    rewrite <- (mapply_mmul n n n) by assumption. rewrite IP.
    apply mapply_mid; [exact kfm_n_pos|]. apply (length_mapply n m). eauto with wf.
  - rewrite kfm_post_innovation. f_equal.
    rewrite <- (mapply_mmul m m m) by assumption. rewrite IR.
    apply mapply_mid; [exact kfm_m_pos | assumption].
Qed.

(* J(z) = J(x') + (x' - z)^T Pm^-1 (x' - z) + (C (z - x'))^T R^-1 (C (z - x')) *)
Lemma kfm_cost_decomp z : length z = n ->
  J z = J x' + qform Pmi (vminus x' z) + qform Ri (mapply C (vminus z x')).
Proof.
  intros Hz.
  destruct kfm_Ri_spd as (WRi & SRi & _). destruct kfm_Pmi_spd as (WPi & SPi & _).
  destruct kfm_normal_eq as (N1 & N2).
  assert (Lx' := kfm_x'_len).
  set (a := vminus x' xm). set (e' := vminus y (lin_f C D c2 x' u)).
  set (d1 := vminus x' z). set (g := mapply C (vminus z x')).
  assert (La : length a = n) by (unfold a; now rewrite length_vminus).
  assert (Le' : length e' = m) by (unfold e'; now rewrite length_vminus).
  assert (Ld1 : length d1 = n) by (unfold d1; now rewrite length_vminus).
  assert (Lzx : length (vminus z x') = n) by now rewrite length_vminus.
  assert (Lg : length g = m) by (unfold g; now apply (length_mapply m n)).
  assert (E1 : vminus z xm = vminus a d1).
  { apply (vec_ext n); [now rewrite length_vminus | now rewrite length_vminus |].
    intros i Hi. unfold a, d1. rewrite !vget_vminus; rewrite ?length_vminus; try lia. mnum. lra. }
  assert (E2 : vminus y (lin_f C D c2 z u) = vminus e' g).
  { apply (vec_ext m); [now rewrite length_vminus | now rewrite length_vminus |].
    intros i Hi. unfold e', g. rewrite !vget_vminus; rewrite ?length_vminus; try lia.
    rewrite (mapply_vminus m n) by assumption.
    rewrite vget_vminus by (rewrite (length_mapply m n C) by assumption; lia).
    unfold lin_f. rewrite !vget_vplus; rewrite ?length_vplus, ?(length_mapply m n C) by assumption; try lia.
    mnum. lra. }
  unfold J, map_cost. rewrite E1, E2. fold a e'.
  rewrite (qform_vminus n Pmi a d1) by assumption.
  rewrite (qform_vminus m Ri e' g) by assumption.
  (* cross terms cancel by the normal equation *)
  set (gn := mapply (mtr C) (mapply Si e)) in *.
  assert (Lgn : length gn = n) by (unfold gn; apply (length_mapply n m); eauto with wf).
  assert (C1 : vdot a (mapply Pmi d1) = vdot x' gn - vdot z gn).
  { rewrite (vdot_msym n Pmi a d1) by assumption. fold a in N1. rewrite N1.
    unfold d1. apply vdot_vminus_l. congruence. }
  assert (C2 : vdot e' (mapply Ri g) = vdot z gn - vdot x' gn).
  { rewrite (vdot_msym m Ri e' g) by assumption. fold e' in N2.
    unfold g. rewrite (vdot_comm (mapply C (vminus z x')) (mapply Ri e'))
      by (rewrite (length_mapply m n C) by assumption; rewrite (length_mapply m m Ri) by assumption; reflexivity).
    rewrite (vdot_adjoint m n) by (assumption || now apply (length_mapply m m)).
    rewrite N2. rewrite vdot_comm by congruence.
    apply vdot_vminus_l. congruence. }
  rewrite C1, C2. lra.
Qed.

Theorem kfm_mean_is_minimiser z : length z = n -> J x' <= J z.
Proof.
  intros Hz. rewrite (kfm_cost_decomp z Hz).
  destruct kfm_Ri_spd as (WRi & _ & PRi). destruct kfm_Pmi_spd as (WPi & _ & PPi).
  assert (0 <= qform Pmi (vminus x' z)).
  { apply (PD_PSD n Pmi WPi PPi). rewrite length_vminus. exact kfm_x'_len. }
  assert (0 <= qform Ri (mapply C (vminus z x'))).
  { apply (PD_PSD m Ri WRi PRi). apply (length_mapply m n). assumption. }
  lra.
Qed.

Theorem kfm_minimiser_unique z : length z = n -> J z = J x' -> z = x'.
Proof.
  intros Hz HJ. rewrite (kfm_cost_decomp z Hz) in HJ.
  destruct kfm_Ri_spd as (WRi & _ & PRi). destruct kfm_Pmi_spd as (WPi & _ & PPi).
  assert (Lx' := kfm_x'_len).
  assert (H2 : 0 <= qform Ri (mapply C (vminus z x'))).
  { apply (PD_PSD m Ri WRi PRi). apply (length_mapply m n). assumption. }
  assert (H1 : qform Pmi (vminus x' z) <= 0) by lra.
  assert (Z := PD_zero_qform n Pmi (vminus x' z) PPi ltac:(now rewrite length_vminus) H1).
  apply (vec_ext n); [assumption | assumption |].
  intros i Hi. specialize (Z i Hi). rewrite vget_vminus in Z by lia. mnum. lra.
Qed.

(* information form:  P' (Pm^-1 + C^T R^-1 C) = I *)
Theorem kfm_information_form : mmul P' (madd Pmi (mmul (mmul (mtr C) Ri) C)) = mid n.
Proof.
  destruct kfm_Si as (W & I1 & I2). destruct kfm_Ri as (WRi & IR1 & IR2). destruct kfm_Pmi as (WPi & IP1 & IP2).
  assert (WK := kfm_K_wf). assert (Hn := kfm_n_pos). destruct kfm_S_spd as (WS & _).
  assert (WIK : wf n n (msub (mid n) (mmul K C))) by eauto 8 with wf.
  assert (WP' : wf n n P') by (unfold P'; eauto 8 with wf).
  (* (I - K C) Pm C^T = K R *)
  assert (EKR : mmul (msub (mid n) (mmul K C)) (mmul Pm (mtr C)) = mmul K Rm).
  { rewrite (mmul_msub_l n n m) by eauto 8 with wf.
    rewrite (mmul_mid_l n m) by eauto with wf.
    apply (msub_of_madd n m); [eauto with wf | eauto 8 with wf | eauto with wf |].
    rewrite <- kfm_KS at 1. unfold S. rewrite (mmul_madd_r n m m) by eauto 8 with wf. f_equal.
    rewrite (mmul_assoc n m n m K C (mmul Pm (mtr C))) by eauto 8 with wf.
    rewrite (mmul_assoc m n n m C Pm (mtr C)) by eauto 8 with wf. reflexivity. }
  (* P' C^T R^-1 = K *)
  assert (EK : mmul P' (mmul (mtr C) Ri) = K).
  { unfold P'. rewrite (mmul_assoc n n n m) by eauto 8 with wf.
    rewrite <- (mmul_assoc n n m m Pm) by eauto with wf.
    rewrite <- (mmul_assoc n n m m) by eauto 8 with wf.
    rewrite EKR. rewrite (mmul_assoc n m m m) by assumption. rewrite IR1. now apply (mmul_mid_r n m). }
  rewrite (mmul_madd_r n n n) by eauto 8 with wf.
  rewrite <- (mmul_assoc n n m n) by eauto 8 with wf. rewrite EK.
  unfold P'. rewrite (mmul_assoc n n n n) by assumption. rewrite IP1.
  rewrite (mmul_mid_r n n) by assumption.
  apply (msub_madd_cancel n n); eauto with wf.
Qed.
End KFmap.

(* the statement about [kf_update] as it is used in [kf_step] *)
Theorem kf_update_is_map (pinv pinvn : matR -> matR) (n m p : nat) (Pm C D Rm : matR) (c2 xm y u : list R) :
  pinv_ok m pinv -> pinv_ok n pinvn -> SPD n Pm -> wf m n C -> wf m p D -> length c2 = m -> SPD m Rm ->
  length xm = n -> length y = m -> length u = p ->
  let x' := fst (kf_update pinv C D c2 Rm xm Pm u y) in
  let P' := snd (kf_update pinv C D c2 Rm xm Pm u y) in
  let J := map_cost (pinvn Pm) (pinv Rm) C D c2 xm y u in
  length x' = n /\
  (forall z, length z = n -> J x' <= J z) /\
  (forall z, length z = n -> J z = J x' -> z = x') /\
  mmul P' (madd (pinvn Pm) (mmul (mmul (mtr C) (pinv Rm)) C)) = mid n.
Proof.
  intros Hp Hpn HPm HC HD Hc2 HR Hxm Hy Hu. cbv zeta.
  rewrite (kfm_update_eq pinv n Pm C D Rm c2 xm y u HPm). cbn [fst snd].
  split; [eapply kfm_x'_len; eassumption|].
  split; [intros z Hz; eapply (kfm_mean_is_minimiser pinv pinvn n m p); eassumption|].
  split; [intros z Hz HJ; eapply (kfm_minimiser_unique pinv pinvn n m p); eassumption|].
  eapply (kfm_information_form pinv pinvn n m); eassumption.
Qed.

(* ================================================================== UKF on linear systems: SPD for every k > -n *)
Theorem ukf_linear_cov_spd_any_k (n m p : nat) (pinv msqrt : matR -> matR) (A B C D : matR) (c1 c2 : list R)
  (Q Rm : matR) (x y u : list R) (P : matR) (k : R) :
  pinv_ok m pinv -> factor_ok n msqrt ->
  wf n n A -> wf n p B -> wf m n C -> wf m p D -> length c1 = n -> length c2 = m ->
  SPD n Q -> SPD m Rm -> SPD n P -> length x = n -> length u = p ->
  0 < IZR (Z.of_nat n) + k ->
  exists x' P', ukf_forward pinv msqrt (lin_system A B C D c1 c2) Q Rm x y u P k = Some (x', P') /\
                length x' = n /\ SPD n P'.
Proof.
  intros Hp Hs HA HB HC HD Hc1 Hc2 HQ HR HP Hx Hu Hnk.
  unfold ukf_forward.
  rewrite (ukf_repaired_linear_is_kf n m p pinv msqrt A B C D c1 c2 Q Rm x y u P k
             Hp Hs HA HB HC HD Hc1 Hc2 HQ HR HP Hx Hu Hnk).
  destruct (kf_step_invariant pinv n m p A B C D c1 c2 Q Rm x y u P Hp HA HC HQ HR HP) as [L1 S1].
  destruct (kf_step pinv A B C D c1 c2 Q Rm x y u P) as [x1 P1]. cbn [fst snd] in *.
  exists x1, P1. split; [reflexivity | split; assumption].
Qed.
