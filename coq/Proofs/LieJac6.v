(* C04 (part 6): se3 Exp.  se3_Exp.backward multiplies by se3_Jl(x) = [[Jl, Q], [0, Jl]] (Q = calcQ):
     d/dh se3_exp(x + h dl) |_0 = T_{Exp x}(se3_Jl(x) dl)        on the closed-form branch eps < |phi|.
   The translation block needs  (D_phi Jl(phi)[dphi]) tau = Q(tau, phi) dphi + (Jl dphi) x (Jl tau). *)
From Coq Require Import Reals Lra Psatz List Nsatz.
From Coquelicot Require Import Coquelicot.
Import ListNotations.
From PV Require Import Base.Num Base.RTac Model.LieGroup Model.LieExp Model.LieLog Model.LieJac Proofs.LieGroup Proofs.LieExp Proofs.LieJac
  Proofs.LieJac2 Proofs.LieJac3 Proofs.LieJac4 Proofs.LieJacPair2.
Local Open Scope R_scope.
#[local] Remove Hints NumQ NumZ : typeclass_instances.

(* closed-form so3_Jl and calcQ with T, S = sin T, C = cos T as parameters *)
Definition JlTSC (T S C : R) (x : vec3R) : @mat3 R :=
  let K := skew x in madd3 (madd3 mid3 (mscale3 ((1 - C) / (T * T)) K)) (mscale3 ((T - S) / (T * (T * T))) (mmul3 K K)).
Definition QTSC (T S C : R) (tau phi : vec3R) : @mat3 R :=
  let Tau := skew tau in let Phi := skew phi in
  let theta2 := T * T in let theta4 := theta2 * theta2 in
  let coef1 := (T - S) / (theta2 * T) in
  let coef2 := (theta2 + 2 * C - 2) / (2 * theta4) in
  let coef3 := (2 * T - 3 * S + T * C) / (2 * theta4 * T) in
  let PT := mmul3 Phi Tau in let TP := mmul3 Tau Phi in let PTP := mmul3 PT Phi in
  let PPT := mmul3 Phi PT in let TPP := mmul3 TP Phi in
  madd3 (madd3 (madd3 (mscale3 (1 / 2) Tau)
     (mscale3 coef1 (madd3 (madd3 PT TP) PTP)))
     (mscale3 coef2 (madd3 (madd3 PPT TPP) (mscale3 (- 3) PTP))))
     (mscale3 coef3 (madd3 (mmul3 PTP Phi) (mmul3 Phi PTP))).
(* derivative of  h |-> Jl(phi + h dphi) (tau + h dtau)  at 0 *)
Definition DJl (T S C : R) (tau phi dtau dphi : vec3R) : vec3R :=
  let T' := vdot phi dphi / T in
  let c1 := (1 - C) / (T * T) in let c2 := (T - S) / (T * (T * T)) in
  let c1' := (S * T - 2 * (1 - C)) / (T * (T * T)) * T' in
  let c2' := ((1 - C) * T - 3 * (T - S)) / (T * T * (T * T)) * T' in
  vadd (mvmul (JlTSC T S C phi) dtau)
   (vadd (vadd (vscale c1' (vcross phi tau)) (vscale c1 (vcross dphi tau)))
         (vadd (vscale c2' (vcross phi (vcross phi tau)))
               (vscale c2 (vadd (vcross dphi (vcross phi tau)) (vcross phi (vcross dphi tau)))))).
Lemma se3_dx_algebra (T S C : R) (tau phi dtau dphi : vec3R) : T <> 0 -> T * T = vdot phi phi -> S * S + C * C = 1 ->
  DJl T S C tau phi dtau dphi =
  vadd (vadd (mvmul (JlTSC T S C phi) dtau) (mvmul (QTSC T S C tau phi) dphi))
       (vcross (mvmul (JlTSC T S C phi) dphi) (mvmul (JlTSC T S C phi) tau)).
Proof.
  intros HT HTT HSC. destruct tau as [[t1 t2] t3], phi as [[x1 x2] x3], dtau as [[u1 u2] u3], dphi as [[d1 d2] d3].
  unfold DJl, JlTSC, QTSC. lie_unfold. clear - HT HTT HSC.
  split_pairs; field_simplify_eq; auto; cbn [Rpow_def.pow]; nsatz.
Qed.

(* closed form of h |-> so3_Jl(phi) tau as a function of the vectors *)
Definition Jlc (x : vec3R) : @mat3 R := let T := sqrt (vdot x x) in JlTSC T (sin T) (cos T) x.
Lemma so3_Jl_closed (eps : R) (x : vec3R) : eps < vnorm x -> so3_Jl eps x = Jlc x.
Proof.
  intros H. unfold so3_Jl, so3_Jl_coef, Jlc, JlTSC.
  replace (ltb eps (vnorm x)) with true by (symmetry; cbn; now apply Rltb_true).
  cbn [fst snd]. unfold vnorm. num_simpl. reflexivity.
Qed.
Lemma calcQ_closed (eps : R) (tau phi : vec3R) : eps < vnorm phi ->
  calcQ eps (v6_l (tau, phi)) = let T := sqrt (vdot phi phi) in QTSC T (sin T) (cos T) tau phi.
Proof.
  intros H. destruct tau as [[t1 t2] t3], phi as [[x1 x2] x3]. unfold calcQ, v6_l, v3_l, l_v3. cbn [fst snd app skipn nth vx vy vz].
  replace (ltb eps (vnorm (x1, x2, x3))) with true by (symmetry; cbn; now apply Rltb_true).
  unfold QTSC, vnorm. num_simpl. reflexivity.
Qed.
Lemma Jlc_derive (tau phi dtau dphi : vec3R) i : 0 < vdot phi phi ->
  let T := sqrt (vdot phi phi) in
  is_derive (fun h => vc i (mvmul (Jlc (vadd phi (vscale h dphi))) (vadd tau (vscale h dtau)))) 0
            (vc i (DJl T (sin T) (cos T) tau phi dtau dphi)).
Proof.
  intros Hp T.
  assert (HT : 0 < T) by (apply sqrt_lt_R0; exact Hp).
  destruct tau as [[t1 t2] t3], phi as [[x1 x2] x3], dtau as [[u1 u2] u3], dphi as [[d1 d2] d3].
  unfold Jlc, DJl, JlTSC, vc. lie_unfold.
  assert (E0 : sqrt ((x1 + 0 * d1) * (x1 + 0 * d1) + (x2 + 0 * d2) * (x2 + 0 * d2) + (x3 + 0 * d3) * (x3 + 0 * d3)) = T).
  { unfold T. lie_unfold. f_equal. ring. }
  assert (Hp' : 0 < (x1 + 0 * d1) * (x1 + 0 * d1) + (x2 + 0 * d2) * (x2 + 0 * d2) + (x3 + 0 * d3) * (x3 + 0 * d3)).
  { lie_unfold. replace ((x1 + 0 * d1) * (x1 + 0 * d1) + (x2 + 0 * d2) * (x2 + 0 * d2) + (x3 + 0 * d3) * (x3 + 0 * d3)) with (x1 * x1 + x2 * x2 + x3 * x3) by ring. exact Hp. }
  assert (HT1 : T <> 0) by (apply Rgt_not_eq; exact HT).
  assert (HT2 : T * T <> 0) by (apply Rmult_integral_contrapositive_currified; assumption).
  assert (HT3 : T * (T * T) <> 0) by (apply Rmult_integral_contrapositive_currified; assumption).
  d3 i; (auto_derive; [rewrite ?E0; repeat split; auto|]); rewrite ?E0; lie_unfold;
  set (SS := sin T); set (CC := cos T); clearbody SS CC; field; exact HT1.
Qed.

Theorem se3_exp_dx (eps : R) (x dl : v6) i : 0 <= eps -> eps < vnorm (snd x) ->
  is_derive (fun h => se3c i (se3_exp eps (v6add x (v6scale h dl)))) 0
    (se3c i (tanSE3 (vadd (mvmul (so3_Jl eps (snd x)) (fst dl)) (mvmul (calcQ eps (v6_l x)) (snd dl)),
                     mvmul (so3_Jl eps (snd x)) (snd dl)) (se3_exp eps x))).
Proof.
  intros He Hx. destruct x as [tau phi], dl as [dtau dphi]. cbn [fst snd] in *.
  unfold se3_exp, v6add, v6scale, tanSE3. cbn [fst snd].
  destruct i as [|[|[|j]]]; unfold se3c; cbn [fst snd]; [| | | apply (so3_exp_dx eps phi dphi j He Hx)].
  all: match goal with |- is_derive (fun h => ?pr (mvmul _ _)) 0 (?pr ?tgt) =>
    match pr with vx => change (is_derive (fun h => vc 0 (mvmul (so3_Jl eps (vadd phi (vscale h dphi))) (vadd tau (vscale h dtau)))) 0 (vc 0 tgt))
                | vy => change (is_derive (fun h => vc 1 (mvmul (so3_Jl eps (vadd phi (vscale h dphi))) (vadd tau (vscale h dtau)))) 0 (vc 1 tgt))
                | vz => change (is_derive (fun h => vc 2 (mvmul (so3_Jl eps (vadd phi (vscale h dphi))) (vadd tau (vscale h dtau)))) 0 (vc 2 tgt)) end end.
  all: match goal with |- is_derive (fun h => vc ?k _) 0 _ =>
    pose proof (vnorm_sq phi) as Hs; assert (Hpos : 0 < vdot phi phi) by nra;
    apply (is_derive_ext_loc (fun h => vc k (mvmul (Jlc (vadd phi (vscale h dphi))) (vadd tau (vscale h dtau)))));
    [ assert (HL : locally 0 (fun h => eps < vnorm (vadd phi (vscale h dphi))))
        by (apply locally_gt; [apply vnorm_line_continuous | now rewrite vline_0]);
      revert HL; apply filter_imp; intros h Hh; now rewrite so3_Jl_closed
    | rewrite (calcQ_closed eps tau phi Hx), !(so3_Jl_closed eps phi Hx); cbv zeta; unfold Jlc;
      rewrite <- se3_dx_algebra;
      [ apply (Jlc_derive tau phi dtau dphi k Hpos)
      | change (sqrt (vdot phi phi)) with (vnorm phi); lra
      | exact Hs
      | pose proof (sin2_cos2 (sqrt (vdot phi phi))) as H; unfold Rsqr in H; exact H ] ] end.
Qed.
