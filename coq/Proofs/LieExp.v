(* C01 (part): properties of the modelled exponential maps over R. *)
From Coq Require Import Reals Lra Psatz List Nsatz.
From Coquelicot Require Import Coquelicot.
From Interval Require Import Tactic.
Import ListNotations.
From PV Require Import Base.Num Base.RTac Model.LieGroup Model.LieExp Proofs.LieGroup.
Local Open Scope R_scope.
#[local] Remove Hints NumQ NumZ : typeclass_instances.

Ltac exp_unfold :=
  cbv [so3_exp so3_exp_coef so3_Jl so3_Jl_coef se3_exp rxso3_Ws rxso3_Ws_coef rxso3_exp sim3_exp vnorm
       absF ltb leb eqb tsqrt tsin tcos tatan texp tln tpi TransR] in *.

Lemma vnorm_sq (x : vec3R) : vnorm x * vnorm x = vdot x x.
Proof.
  unfold vnorm. cbn [tsqrt TransR]. apply sqrt_sqrt. destruct x as [[a b] c]. lie_unfold. nra.
Qed.
Lemma vnorm_nonneg (x : vec3R) : 0 <= vnorm x.
Proof. unfold vnorm. cbn. apply sqrt_pos. Qed.

(* ---- unit norm of Exp: exact on the closed-form branch *)
Lemma so3_exp_unit_closed (eps : R) (x : vec3R) : 0 <= eps -> eps < vnorm x ->
  qnorm2 (so3_exp eps x) = 1.
Proof.
  intros He Ht. pose proof (vnorm_sq x) as Hs. unfold so3_exp, so3_exp_coef.
  replace (ltb eps (vnorm x)) with true by (symmetry; cbn; now apply Rltb_true).
  set (t := vnorm x) in *. cbn [fst snd].
  unfold qnorm2. cbn [qv qw fst snd].
  replace (vdot (vscale (tsin (half * t) / t) x) (vscale (tsin (half * t) / t) x))
    with ((tsin (half * t) / t) * (tsin (half * t) / t) * vdot x x)
    by (destruct x as [[a b] c]; lie_unfold; ring).
  rewrite <- Hs. cbn [tsin tcos TransR]. num_unfold.
  pose proof (sin2_cos2 (1 / 2 * t)) as Hsc. unfold Rsqr in Hsc.
  field_simplify_eq; [|lra]. nra.
Qed.

(* ---- on the Taylor branch the deviation is exactly theta^6 * P(theta^2), tiny *)
Lemma so3_exp_unit_taylor (eps : R) (x : vec3R) : vnorm x <= eps ->
  let s := vdot x x in
  qnorm2 (so3_exp eps x) - 1 = s * s * s * (s * s - 60 * s + 640) / 14745600.
Proof.
  intros Ht. pose proof (vnorm_sq x) as Hs. unfold so3_exp, so3_exp_coef.
  replace (ltb eps (vnorm x)) with false by (symmetry; cbn; now apply Rltb_false).
  set (t := vnorm x) in *. cbn [fst snd]. cbv zeta.
  unfold qnorm2. cbn [qv qw fst snd].
  match goal with |- context [vscale ?k x] =>
    replace (vdot (vscale k x) (vscale k x)) with (k * k * vdot x x)
      by (destruct x as [[a b] c]; lie_unfold; ring) end.
  rewrite <- Hs. num_unfold. field.
Qed.
Lemma so3_exp_unit_taylor_bound (eps : R) (x : vec3R) : vnorm x <= eps -> eps <= 1/1024 ->
  Rabs (qnorm2 (so3_exp eps x) - 1) <= (vnorm x)^6 / 20000.
Proof.
  intros Ht He. rewrite (so3_exp_unit_taylor eps x Ht). cbv zeta. rewrite <- (vnorm_sq x).
  pose proof (vnorm_nonneg x) as Hp. set (t := vnorm x) in *.
  replace (t * t * (t * t) * (t * t) * (t * t * (t * t) - 60 * (t * t) + 640) / 14745600)
    with (t^6 * ((t * t * (t * t) - 60 * (t * t) + 640) / 14745600)) by (field).
  rewrite Rabs_mult. rewrite (Rabs_pos_eq (t^6)) by (apply pow_le; lra).
  unfold Rdiv at 2. apply Rmult_le_compat_l; [apply pow_le; lra|].
  assert (Hr : 0 <= t <= 1/1024) by lra. interval.
Qed.

(* ---- closed-form branch: matrix of Exp(x) is Rodrigues' formula I + sin(th)/th K + (1-cos th)/th^2 K^2 *)
Definition rodrigues (x : vec3R) : @mat3 R :=
  let t := vnorm x in
  madd3 (madd3 mid3 (mscale3 (sin t / t) (skew x))) (mscale3 ((1 - cos t) / (t * t)) (mmul3 (skew x) (skew x))).
Lemma so3_matrix_rodrigues (eps : R) (x : vec3R) : 0 <= eps -> eps < vnorm x ->
  SO3_matrix (so3_exp eps x) = rodrigues x.
Proof.
  intros He Ht. pose proof (vnorm_sq x) as Hs. unfold so3_exp, so3_exp_coef, rodrigues.
  replace (ltb eps (vnorm x)) with true by (symmetry; cbn; now apply Rltb_true).
  set (t := vnorm x) in *. cbn [fst snd tsin tcos TransR].
  assert (Hsin : sin t = 2 * sin (t / 2) * cos (t / 2)) by (replace t with (2 * (t / 2)) at 1 by field; apply sin_2a).
  assert (Hcos : cos t = 1 - 2 * sin (t / 2) * sin (t / 2)) by (replace t with (2 * (t / 2)) at 1 by field; apply cos_2a_sin).
  rewrite Hsin, Hcos. destruct x as [[a b] c]. lie_unfold. num_unfold.
  replace (1 / 2 * t) with (t / 2) by field.
  set (S := sin (t / 2)) in *. set (C := cos (t / 2)) in *.
  assert (Ht0 : t <> 0) by lra.
  assert (Hs' : a * a + b * b + c * c = t * t) by lra.
  clear - Ht0 Hs'.
  split_pairs; field_simplify_eq; auto; cbn [Rpow_def.pow]; nsatz.
Qed.

(* ---- Rodrigues solves the defining ODE of exp(t K):  Y(0) = I,  Y'(t) = K Y(t)  (entrywise) *)
Definition rod_th (th : R) (x : vec3R) (t : R) : @mat3 R :=
  madd3 (madd3 mid3 (mscale3 (sin (t * th) / th) (skew x)))
        (mscale3 ((1 - cos (t * th)) / (th * th)) (mmul3 (skew x) (skew x))).
Definition rod_t (x : vec3R) (t : R) : @mat3 R := rod_th (vnorm x) x t.
Definition m3get (m : @mat3 R) (i j : nat) : R :=
  let r := match i with 0%nat => mr0 m | 1%nat => mr1 m | _ => mr2 m end in
  match j with 0%nat => vx r | 1%nat => vy r | _ => vz r end.
Lemma rod_t_0 x : vnorm x <> 0 -> rod_t x 0 = mid3.
Proof.
  intros H. unfold rod_t, rod_th. rewrite Rmult_0_l, sin_0, cos_0. set (th := vnorm x) in *. clearbody th.
  destruct x as [[a b] c]. lie_unfold. split_pairs; field; auto.
Qed.
Lemma rod_t_1 x : rod_t x 1 = rodrigues x.
Proof. unfold rod_t, rod_th, rodrigues. now rewrite Rmult_1_l. Qed.
Lemma rod_th_ode a b c th : th <> 0 -> a * a + b * b + c * c = th * th ->
  forall t i j, (i < 3)%nat -> (j < 3)%nat ->
  is_derive (fun t => m3get (rod_th th (a, b, c) t) i j) t (m3get (mmul3 (skew (a, b, c)) (rod_th th (a, b, c) t)) i j).
Proof.
  intros Hn Hs' t i j Hi Hj.
  destruct i as [|[|[|i]]]; try lia; destruct j as [|[|[|j]]]; try lia;
  unfold rod_th, m3get; lie_unfold; auto_derive; auto;
  set (S := sin (t * th)); set (C := cos (t * th)); clearbody S C; field_simplify_eq; auto;
  clear - Hs'; cbn [Rpow_def.pow]; nsatz.
Qed.
Lemma rod_t_ode x : vnorm x <> 0 -> forall t i j, (i < 3)%nat -> (j < 3)%nat ->
  is_derive (fun t => m3get (rod_t x t) i j) t (m3get (mmul3 (skew x) (rod_t x t)) i j).
Proof.
  intros Hn t i j Hi Hj. pose proof (vnorm_sq x) as Hs. unfold rod_t. set (th := vnorm x) in *. clearbody th.
  destruct x as [[a b] c]. apply rod_th_ode; auto.
Qed.
