(* C15, third part: the affine model's error is second order in the DISTANCE from the reference point,
   uniformly in the direction and with an explicit constant computed from the expression tree
   (no compactness argument): bounds B0 / B1 / B2 of the value, the first and the second directional
   derivatives on a box.  Consequences: a Lipschitz (first order) bound for f itself, the Jacobian
   read at the reference point is within B2 * distance of the Jacobian at a displaced point, and
   A, B are the Frechet derivative. *)
From Coq Require Import Reals Lra Lia ZArith List Bool Arith Psatz.
From Coquelicot Require Import Coquelicot.
Import ListNotations.
From PV Require Import Base.Num Model.Dynamics Proofs.Dynamics.
#[local] Remove Hints NumQ NumZ : typeclass_instances.
Local Open Scope R_scope.

(* ================================================================== 0. small calculus helpers *)
Lemma is_derive_eq (f : R -> R) (s l l' : R) : l = l' -> is_derive f s l -> is_derive f s l'.
Proof. now intros ->. Qed.
Lemma der_add (f g : R -> R) s f' g' : is_derive f s f' -> is_derive g s g' ->
  is_derive (fun r => f r + g r) s (f' + g').
Proof. intros Hf Hg. apply (is_derive_plus (K:=R_AbsRing) (V:=R_NormedModule) f g s f' g' Hf Hg). Qed.
Lemma der_mul (f g : R -> R) s f' g' : is_derive f s f' -> is_derive g s g' ->
  is_derive (fun r => f r * g r) s (f' * g s + f s * g').
Proof. intros Hf Hg. apply (is_derive_mult f g s f' g' Hf Hg). intros n m. apply Rmult_comm. Qed.
Lemma der_sin (f : R -> R) s f' : is_derive f s f' -> is_derive (fun r => sin (f r)) s (cos (f s) * f').
Proof.
  intros Hf. apply (is_derive_eq _ _ (scal f' (cos (f s)))); [unfold scal; cbn; unfold mult; cbn; ring|].
  apply (is_derive_comp (K:=R_AbsRing) (V:=R_NormedModule) sin f); [apply is_derive_sin | exact Hf].
Qed.
Lemma der_cos (f : R -> R) s f' : is_derive f s f' -> is_derive (fun r => cos (f r)) s (- sin (f s) * f').
Proof.
  intros Hf. apply (is_derive_eq _ _ (scal f' (- sin (f s)))); [unfold scal; cbn; unfold mult; cbn; ring|].
  apply (is_derive_comp (K:=R_AbsRing) (V:=R_NormedModule) cos f); [apply is_derive_cos | exact Hf].
Qed.
Lemma der_const (c : R) s : is_derive (fun _ : R => c) s 0.
Proof. apply (is_derive_const (K:=R_AbsRing) (V:=R_NormedModule)). Qed.

(* ================================================================== 1. the directional derivative, structurally *)
Lemma dirder_const c x u dx du t : dirder (EConst c) x u dx du t = 0.
Proof. unfold dirder, gradx, gradu. cbn [deriv eval]. rewrite !dot_map_zero. ring. Qed.
Lemma dirder_t x u dx du t : dirder ET x u dx du t = 0.
Proof. unfold dirder, gradx, gradu. cbn [deriv eval]. rewrite !dot_map_zero. ring. Qed.
Lemma dirder_x i x u dx du t : dirder (EX i) x u dx du t = nth i dx 0.
Proof.
  unfold dirder, gradx, gradu. cbn [deriv].
  rewrite (dot_map_ext _ (fun k => if Nat.eqb i k then 1 else 0)).
  2:{ intros k. destruct (Nat.eqb i k); reflexivity. }
  rewrite dot_delta by reflexivity. cbn [eval]. rewrite dot_map_zero. cbn [Nat.leb]. rewrite Nat.sub_0_r. ring.
Qed.
Lemma dirder_u j x u dx du t : dirder (EU j) x u dx du t = nth j du 0.
Proof.
  unfold dirder, gradx, gradu. cbn [deriv].
  rewrite (dot_map_ext (fun k => evalR (if Nat.eqb j k then EConst one else EConst zero) _ _ _)
                       (fun k => if Nat.eqb j k then 1 else 0)).
  2:{ intros k. destruct (Nat.eqb j k); reflexivity. }
  rewrite dot_delta by reflexivity. cbn [eval]. rewrite dot_map_zero. cbn [Nat.leb]. rewrite Nat.sub_0_r. ring.
Qed.
Lemma dirder_add a b x u dx du t :
  dirder (EAdd a b) x u dx du t = dirder a x u dx du t + dirder b x u dx du t.
Proof. unfold dirder, gradx, gradu. cbn [deriv eval]. cbn [add NumR]. rewrite !dot_map_add. ring. Qed.
Lemma dirder_mul a b x u dx du t :
  dirder (EMul a b) x u dx du t = dirder a x u dx du t * evalR b x u t + evalR a x u t * dirder b x u dx du t.
Proof. unfold dirder, gradx, gradu. cbn [deriv eval]. cbn [add mul NumR]. rewrite !dot_map_lin. ring. Qed.
Lemma dirder_sin a x u dx du t :
  dirder (ESin a) x u dx du t = cos (evalR a x u t) * dirder a x u dx du t.
Proof.
  unfold dirder, gradx, gradu. cbn [deriv eval]. cbn [mul tsin tcos NumR TransR]. rewrite !dot_map_scal. ring.
Qed.
Lemma dirder_cos a x u dx du t :
  dirder (ECos a) x u dx du t = - sin (evalR a x u t) * dirder a x u dx du t.
Proof.
  unfold dirder, gradx, gradu. cbn [deriv eval]. cbn [mul opp one tsin tcos NumR TransR]. rewrite !dot_map_scal. ring.
Qed.

(* mixed second directional derivative  d1^T H d2  (symmetric bilinear form of the Hessian), by
   recursion on the tree; d1 = (dx, du), d2 = (ex, eu) *)
Fixpoint DD (e : fexpr (F:=R)) (x u dx du ex eu : list R) (t : R) : R :=
  match e with
  | EConst _ | EX _ | EU _ | ET => 0
  | EAdd a b => DD a x u dx du ex eu t + DD b x u dx du ex eu t
  | EMul a b => DD a x u dx du ex eu t * evalR b x u t
                + dirder a x u dx du t * dirder b x u ex eu t
                + dirder a x u ex eu t * dirder b x u dx du t
                + evalR a x u t * DD b x u dx du ex eu t
  | ESin a => - sin (evalR a x u t) * dirder a x u ex eu t * dirder a x u dx du t
              + cos (evalR a x u t) * DD a x u dx du ex eu t
  | ECos a => - cos (evalR a x u t) * dirder a x u ex eu t * dirder a x u dx du t
              - sin (evalR a x u t) * DD a x u dx du ex eu t
  end.

(* the derivative of  s |-> (grad e . d1)(p + s d2)  is  DD e d1 d2 *)
Lemma is_derive_dirder (e : fexpr (F:=R)) (x u dx du ex eu : list R) (t : R) :
  length ex = length x -> length eu = length u ->
  forall s, is_derive (fun s => dirder e (xl x ex s) (xl u eu s) dx du t) s
                      (DD e (xl x ex s) (xl u eu s) dx du ex eu t).
Proof.
  intros Hx Hu.
  induction e as [c|i|j| |a IHa b IHb|a IHa b IHb|a IHa|a IHa]; intros s; cbn [DD].
  - apply (is_derive_ext (fun _ => 0)); [intros r; now rewrite dirder_const|apply der_const].
  - apply (is_derive_ext (fun _ => nth i dx 0)); [intros r; now rewrite dirder_x|apply der_const].
  - apply (is_derive_ext (fun _ => nth j du 0)); [intros r; now rewrite dirder_u|apply der_const].
  - apply (is_derive_ext (fun _ => 0)); [intros r; now rewrite dirder_t|apply der_const].
  - apply (is_derive_ext (fun s => dirder a (xl x ex s) (xl u eu s) dx du t + dirder b (xl x ex s) (xl u eu s) dx du t)).
    { intros r. now rewrite dirder_add. }
    apply der_add; [apply IHa|apply IHb].
  - apply (is_derive_ext (fun s => dirder a (xl x ex s) (xl u eu s) dx du t * evalR b (xl x ex s) (xl u eu s) t
                                 + evalR a (xl x ex s) (xl u eu s) t * dirder b (xl x ex s) (xl u eu s) dx du t)).
    { intros r. now rewrite dirder_mul. }
    pose proof (der_add _ _ _ _ _
                  (der_mul _ _ _ _ _ (IHa s) (is_derive_line b x u ex eu t Hx Hu s))
                  (der_mul _ _ _ _ _ (is_derive_line a x u ex eu t Hx Hu s) (IHb s))) as H.
    cbn beta in H. refine (is_derive_eq _ _ _ _ _ H). ring.
  - apply (is_derive_ext (fun s => cos (evalR a (xl x ex s) (xl u eu s) t) * dirder a (xl x ex s) (xl u eu s) dx du t)).
    { intros r. now rewrite dirder_sin. }
    pose proof (der_mul _ _ _ _ _ (der_cos _ _ _ (is_derive_line a x u ex eu t Hx Hu s)) (IHa s)) as H.
    cbn beta in H. refine (is_derive_eq _ _ _ _ _ H). ring.
  - apply (is_derive_ext (fun s => - sin (evalR a (xl x ex s) (xl u eu s) t) * dirder a (xl x ex s) (xl u eu s) dx du t)).
    { intros r. now rewrite dirder_cos. }
    pose proof (der_mul _ _ _ _ _
                  (is_derive_opp (K:=R_AbsRing) (V:=R_NormedModule) _ _ _
                     (der_sin _ _ _ (is_derive_line a x u ex eu t Hx Hu s))) (IHa s)) as H.
    cbn beta in H. refine (is_derive_eq _ _ _ _ _ H). unfold opp; cbn. ring.
Qed.

(* DD on the diagonal is the second directional derivative d2 of Proofs/Dynamics.v *)
Lemma d2_is_DD e x u dx du t : length dx = length x -> length du = length u ->
  d2 e x u dx du t = DD e x u dx du dx du t.
Proof.
  intros Hx Hu.
  pose proof (is_derive_line1 e x u dx du t Hx Hu 0) as H1.
  pose proof (is_derive_dirder e x u dx du dx du t Hx Hu 0) as H2.
  rewrite !xl_0 in H1, H2 by assumption.
  rewrite <- (is_derive_unique _ _ _ H1). apply (is_derive_unique _ _ _ H2).
Qed.

(* ================================================================== 2. bounds on a box *)
Definition norm1 (d : list R) : R := fold_right (fun a s => Rabs a + s) 0 d.
Definition bnd (P : R) (l : list R) : Prop := Forall (fun a => Rabs a <= P) l.

Lemma norm1_cons a d : norm1 (a :: d) = Rabs a + norm1 d.
Proof. reflexivity. Qed.
Lemma norm1_nonneg d : 0 <= norm1 d.
Proof. induction d as [|a d IH]; [cbn; lra|]. rewrite norm1_cons. pose proof (Rabs_pos a). lra. Qed.
Lemma nth_le_norm1 d i : Rabs (nth i d 0) <= norm1 d.
Proof.
  revert i; induction d as [|a d IH]; intros [|i]; rewrite ?norm1_cons; cbn [nth].
  - rewrite Rabs_R0. cbn. lra.
  - rewrite Rabs_R0. cbn. lra.
  - pose proof (norm1_nonneg d). lra.
  - pose proof (Rabs_pos a). specialize (IH i). lra.
Qed.
Lemma nth_bnd P l i : 0 <= P -> bnd P l -> Rabs (nth i l 0) <= P.
Proof.
  intros HP H. revert i; induction H as [|a l Ha H IH]; intros [|i]; cbn; try (rewrite Rabs_R0; lra); auto.
Qed.
Lemma bnd_mono P Q l : P <= Q -> bnd P l -> bnd Q l.
Proof. intros HPQ H. eapply Forall_impl; [|exact H]. cbn. intros a Ha. lra. Qed.
Lemma bnd_norm1 l : bnd (norm1 l) l.
Proof.
  induction l as [|a l IH]; [constructor|]. rewrite norm1_cons. constructor.
  - pose proof (norm1_nonneg l). lra.
  - eapply bnd_mono; [|exact IH]. pose proof (Rabs_pos a). lra.
Qed.
Lemma bnd_xl P : forall x dx r, bnd P x -> length dx = length x -> 0 <= r <= 1 ->
  bnd (P + norm1 dx) (xl x dx r).
Proof.
  unfold xl. induction x as [|a x IH]; intros [|d dx] r H HL Hr; cbn in HL; try lia; [constructor|].
  inversion H as [|? ? Ha Hx]; subst. cbn [vscale map vadd]. constructor.
  - rewrite norm1_cons. cbn [add mul NumR]. pose proof (norm1_nonneg dx).
    eapply Rle_trans; [apply Rabs_triang|]. rewrite Rabs_mult. rewrite (Rabs_pos_eq r) by lra.
    pose proof (Rabs_pos d). pose proof (Rabs_pos a). nra.
  - eapply bnd_mono; [|apply (IH dx r Hx); [lia|exact Hr]]. rewrite norm1_cons. pose proof (Rabs_pos d). lra.
Qed.

(* B0 bounds |e|, B1 * |d|_1 bounds |grad e . d|, B2 * |d1|_1 * |d2|_1 bounds |d1^T H d2| on the box
   |x_i|, |u_j| <= P (t fixed) *)
Fixpoint B0 (e : fexpr (F:=R)) (P t : R) : R :=
  match e with
  | EConst c => Rabs c
  | EX _ | EU _ => P
  | ET => Rabs t
  | EAdd a b => B0 a P t + B0 b P t
  | EMul a b => B0 a P t * B0 b P t
  | ESin _ | ECos _ => 1
  end.
Fixpoint B1 (e : fexpr (F:=R)) (P t : R) : R :=
  match e with
  | EConst _ | ET => 0
  | EX _ | EU _ => 1
  | EAdd a b => B1 a P t + B1 b P t
  | EMul a b => B1 a P t * B0 b P t + B0 a P t * B1 b P t
  | ESin a | ECos a => B1 a P t
  end.
Fixpoint B2 (e : fexpr (F:=R)) (P t : R) : R :=
  match e with
  | EConst _ | ET | EX _ | EU _ => 0
  | EAdd a b => B2 a P t + B2 b P t
  | EMul a b => B2 a P t * B0 b P t + 2 * (B1 a P t * B1 b P t) + B0 a P t * B2 b P t
  | ESin a | ECos a => B1 a P t * B1 a P t + B2 a P t
  end.

Lemma B0_nonneg e P t : 0 <= P -> 0 <= B0 e P t.
Proof.
  intros HP. induction e; cbn; try lra; try apply Rabs_pos; try nra.
Qed.
Lemma B1_nonneg e P t : 0 <= P -> 0 <= B1 e P t.
Proof.
  intros HP. induction e as [c|i|j| |a IHa b IHb|a IHa b IHb|a IHa|a IHa]; cbn; try lra.
  pose proof (B0_nonneg a P t HP). pose proof (B0_nonneg b P t HP). nra.
Qed.
Lemma B2_nonneg e P t : 0 <= P -> 0 <= B2 e P t.
Proof.
  intros HP. induction e as [c|i|j| |a IHa b IHb|a IHa b IHb|a IHa|a IHa]; cbn; try lra.
  - pose proof (B0_nonneg a P t HP). pose proof (B0_nonneg b P t HP).
    pose proof (B1_nonneg a P t HP). pose proof (B1_nonneg b P t HP). nra.
  - pose proof (B1_nonneg a P t HP). nra.
  - pose proof (B1_nonneg a P t HP). nra.
Qed.

Lemma Rabs_mul_le a b A B : Rabs a <= A -> Rabs b <= B -> Rabs (a * b) <= A * B.
Proof.
  intros Ha Hb. rewrite Rabs_mult. pose proof (Rabs_pos a). pose proof (Rabs_pos b).
  apply Rmult_le_compat; assumption.
Qed.
Lemma Rabs_sin_le a : Rabs (sin a) <= 1.
Proof. apply Rabs_le. pose proof (SIN_bound a). lra. Qed.
Lemma Rabs_cos_le a : Rabs (cos a) <= 1.
Proof. apply Rabs_le. pose proof (COS_bound a). lra. Qed.
Lemma Rabs_add_le a b A B : Rabs a <= A -> Rabs b <= B -> Rabs (a + b) <= A + B.
Proof. intros Ha Hb. eapply Rle_trans; [apply Rabs_triang|]. lra. Qed.

Section Box.
Variables (P t : R) (x u : list R).
Hypothesis HP : 0 <= P.
Hypothesis Hx : bnd P x.
Hypothesis Hu : bnd P u.

Lemma eval_bound e : Rabs (evalR e x u t) <= B0 e P t.
Proof.
  induction e as [c|i|j| |a IHa b IHb|a IHa b IHb|a IHa|a IHa]; cbn [eval B0].
  - lra.
  - now apply nth_bnd.
  - now apply nth_bnd.
  - lra.
  - now apply Rabs_add_le.
  - now apply Rabs_mul_le.
  - apply Rabs_sin_le.
  - apply Rabs_cos_le.
Qed.

Lemma dirder_bound e dx du : Rabs (dirder e x u dx du t) <= B1 e P t * (norm1 dx + norm1 du).
Proof.
  set (N := norm1 dx + norm1 du).
  assert (HN : 0 <= N) by (pose proof (norm1_nonneg dx); pose proof (norm1_nonneg du); unfold N; lra).
  induction e as [c|i|j| |a IHa b IHb|a IHa b IHb|a IHa|a IHa]; cbn [B1].
  - rewrite dirder_const, Rabs_R0. lra.
  - rewrite dirder_x. pose proof (nth_le_norm1 dx i). pose proof (norm1_nonneg du). unfold N. lra.
  - rewrite dirder_u. pose proof (nth_le_norm1 du j). pose proof (norm1_nonneg dx). unfold N. lra.
  - rewrite dirder_t, Rabs_R0. lra.
  - rewrite dirder_add. replace ((B1 a P t + B1 b P t) * N) with (B1 a P t * N + B1 b P t * N) by ring.
    now apply Rabs_add_le.
  - rewrite dirder_mul.
    replace ((B1 a P t * B0 b P t + B0 a P t * B1 b P t) * N)
      with ((B1 a P t * N) * B0 b P t + B0 a P t * (B1 b P t * N)) by ring.
    apply Rabs_add_le; apply Rabs_mul_le; try assumption; apply eval_bound.
  - rewrite dirder_sin. replace (B1 a P t * N) with (1 * (B1 a P t * N)) by ring.
    apply Rabs_mul_le; [apply Rabs_cos_le|exact IHa].
  - rewrite dirder_cos. replace (B1 a P t * N) with (1 * (B1 a P t * N)) by ring.
    apply Rabs_mul_le; [rewrite Rabs_Ropp; apply Rabs_sin_le|exact IHa].
Qed.

Lemma DD_bound e dx du ex eu :
  Rabs (DD e x u dx du ex eu t) <= B2 e P t * ((norm1 dx + norm1 du) * (norm1 ex + norm1 eu)).
Proof.
  set (N := norm1 dx + norm1 du). set (K := norm1 ex + norm1 eu).
  assert (HN : 0 <= N) by (pose proof (norm1_nonneg dx); pose proof (norm1_nonneg du); unfold N; lra).
  assert (HK : 0 <= K) by (pose proof (norm1_nonneg ex); pose proof (norm1_nonneg eu); unfold K; lra).
  induction e as [c|i|j| |a IHa b IHb|a IHa b IHb|a IHa|a IHa]; cbn [B2 DD];
    try (rewrite Rabs_R0; lra).
  - replace ((B2 a P t + B2 b P t) * (N * K)) with (B2 a P t * (N * K) + B2 b P t * (N * K)) by ring.
    now apply Rabs_add_le.
  - assert (A1 : Rabs (dirder a x u dx du t) <= B1 a P t * N) by apply dirder_bound.
    assert (A2 : Rabs (dirder a x u ex eu t) <= B1 a P t * K) by apply dirder_bound.
    assert (A3 : Rabs (dirder b x u dx du t) <= B1 b P t * N) by apply dirder_bound.
    assert (A4 : Rabs (dirder b x u ex eu t) <= B1 b P t * K) by apply dirder_bound.
    pose proof (eval_bound a) as A5. pose proof (eval_bound b) as A6.
    replace ((B2 a P t * B0 b P t + 2 * (B1 a P t * B1 b P t) + B0 a P t * B2 b P t) * (N * K))
      with ((B2 a P t * (N * K)) * B0 b P t + (B1 a P t * N) * (B1 b P t * K)
            + (B1 a P t * K) * (B1 b P t * N) + B0 a P t * (B2 b P t * (N * K))) by ring.
    apply Rabs_add_le; [apply Rabs_add_le; [apply Rabs_add_le|]|]; apply Rabs_mul_le; assumption.
  - assert (A1 : Rabs (dirder a x u dx du t) <= B1 a P t * N) by apply dirder_bound.
    assert (A2 : Rabs (dirder a x u ex eu t) <= B1 a P t * K) by apply dirder_bound.
    replace ((B1 a P t * B1 a P t + B2 a P t) * (N * K))
      with (1 * (B1 a P t * K) * (B1 a P t * N) + 1 * (B2 a P t * (N * K))) by ring.
    apply Rabs_add_le.
    + apply Rabs_mul_le; [apply Rabs_mul_le|]; try assumption. rewrite Rabs_Ropp; apply Rabs_sin_le.
    + apply Rabs_mul_le; [apply Rabs_cos_le|exact IHa].
  - assert (A1 : Rabs (dirder a x u dx du t) <= B1 a P t * N) by apply dirder_bound.
    assert (A2 : Rabs (dirder a x u ex eu t) <= B1 a P t * K) by apply dirder_bound.
    replace ((B1 a P t * B1 a P t + B2 a P t) * (N * K))
      with (1 * (B1 a P t * K) * (B1 a P t * N) + 1 * (B2 a P t * (N * K))) by ring.
    unfold Rminus. apply Rabs_add_le.
    + apply Rabs_mul_le; [apply Rabs_mul_le|]; try assumption. rewrite Rabs_Ropp; apply Rabs_cos_le.
    + rewrite Rabs_Ropp. apply Rabs_mul_le; [apply Rabs_sin_le|exact IHa].
Qed.
End Box.

(* ================================================================== 3. Taylor with these bounds *)
Lemma xl_1 : forall x dx, xl x dx 1 = vadd x dx.
Proof.
  unfold xl, vscale. induction x as [|a x IH]; intros [|d dx]; cbn [map vadd]; try reflexivity.
  rewrite IH. f_equal. cbn. ring.
Qed.

(* mean value form, order 1:  |p(1) - p(0)| <= M  when |p'| <= M on [0, 1] *)
Lemma mvt1 (p p1 : R -> R) M :
  (forall r, is_derive p r (p1 r)) -> (forall r, 0 <= r <= 1 -> Rabs (p1 r) <= M) ->
  Rabs (p 1 - p 0) <= M.
Proof.
  intros D HM.
  destruct (MVT_gen p 0 1 p1) as (c & Hc & E).
  - intros r _. apply D.
  - intros r _. apply continuity_pt_filterlim.
    apply (ex_derive_continuous (K:=R_AbsRing) (V:=R_NormedModule) p r). exists (p1 r). apply D.
  - rewrite Rmin_left, Rmax_right in Hc by lra. rewrite E, Rminus_0_r, Rmult_1_r. now apply HM.
Qed.

Section Segment.
Variables (e : fexpr (F:=R)) (t Q : R) (x u dx du : list R).
Hypothesis HLx : length dx = length x.
Hypothesis HLu : length du = length u.
Hypothesis HQ : 0 <= Q.
Hypothesis Hseg : forall r, 0 <= r <= 1 -> bnd Q (xl x dx r) /\ bnd Q (xl u du r).
Let N := norm1 dx + norm1 du.

Lemma segment_first_order :
  Rabs (evalR e (vadd x dx) (vadd u du) t - evalR e x u t) <= B1 e Q t * N.
Proof.
  pose proof (mvt1 (fun s => evalR e (xl x dx s) (xl u du s) t)
                   (fun s => dirder e (xl x dx s) (xl u du s) dx du t) (B1 e Q t * N)
                   (is_derive_line e x u dx du t HLx HLu)) as T.
  cbn beta in T. rewrite !xl_1, !xl_0 in T by assumption. apply T.
  intros r Hr. destruct (Hseg r Hr) as [H1 H2]. now apply dirder_bound.
Qed.

Lemma segment_second_order :
  Rabs (evalR e (vadd x dx) (vadd u du) t - (evalR e x u t + dirder e x u dx du t)) <= B2 e Q t * N ^ 2 / 2.
Proof.
  pose proof (taylor2_pos (fun s => evalR e (xl x dx s) (xl u du s) t)
                          (fun s => dirder e (xl x dx s) (xl u du s) dx du t)
                          (fun s => DD e (xl x dx s) (xl u du s) dx du dx du t)
                          (is_derive_line e x u dx du t HLx HLu)
                          (is_derive_dirder e x u dx du dx du t HLx HLu) 1 (B2 e Q t * (N * N)) ltac:(lra)) as T.
  cbn beta in T. rewrite !xl_1, !xl_0 in T by assumption.
  replace (B2 e Q t * N ^ 2 / 2) with (B2 e Q t * (N * N) * 1 ^ 2 / 2) by (cbn; field).
  replace (evalR e x u t + dirder e x u dx du t) with (evalR e x u t + 1 * dirder e x u dx du t) by ring.
  apply T. intros r Hr. destruct (Hseg r Hr) as [H1 H2]. now apply DD_bound.
Qed.

(* the directional derivative in ANY direction (ex, eu) moves by at most B2 |e| |d| along the segment *)
Lemma segment_jacobian_drift ex eu :
  Rabs (dirder e (vadd x dx) (vadd u du) ex eu t - dirder e x u ex eu t)
    <= B2 e Q t * ((norm1 ex + norm1 eu) * N).
Proof.
  pose proof (mvt1 (fun s => dirder e (xl x dx s) (xl u du s) ex eu t)
                   (fun s => DD e (xl x dx s) (xl u du s) ex eu dx du t)
                   (B2 e Q t * ((norm1 ex + norm1 eu) * N))
                   (is_derive_dirder e x u ex eu dx du t HLx HLu)) as T.
  cbn beta in T. rewrite !xl_1, !xl_0 in T by assumption. apply T.
  intros r Hr. destruct (Hseg r Hr) as [H1 H2]. now apply DD_bound.
Qed.
End Segment.

(* the segment from a point of the box of radius P stays in the box of radius P + rho *)
Lemma segment_in_box P rho x u dx du :
  bnd P x -> bnd P u -> length dx = length x -> length du = length u ->
  norm1 dx + norm1 du <= rho ->
  forall r, 0 <= r <= 1 -> bnd (P + rho) (xl x dx r) /\ bnd (P + rho) (xl u du r).
Proof.
  intros Hx Hu HLx HLu HN r Hr.
  pose proof (norm1_nonneg dx). pose proof (norm1_nonneg du). split.
  - eapply bnd_mono; [|apply (bnd_xl P x dx r Hx HLx Hr)]. lra.
  - eapply bnd_mono; [|apply (bnd_xl P u du r Hu HLu Hr)]. lra.
Qed.

(* ================================================================== 4. the theorems
   radius of the box: |x|_1 + |u|_1 + rho *)
Definition boxr (x u : list R) (rho : R) : R := norm1 x + norm1 u + rho.
Lemma boxr_seg x u rho dx du : 0 <= rho ->
  length dx = length x -> length du = length u -> norm1 dx + norm1 du <= rho ->
  0 <= boxr x u rho /\
  forall r, 0 <= r <= 1 -> bnd (boxr x u rho) (xl x dx r) /\ bnd (boxr x u rho) (xl u du r).
Proof.
  intros Hr HLx HLu HN. pose proof (norm1_nonneg x). pose proof (norm1_nonneg u).
  split; [unfold boxr; lra|]. unfold boxr.
  apply segment_in_box; try assumption.
  - eapply bnd_mono; [|apply bnd_norm1]. lra.
  - eapply bnd_mono; [|apply bnd_norm1]. lra.
Qed.

Lemma affine_component_at (fs : list (fexpr (F:=R))) x u t dx du i :
  (i < length fs)%nat -> length dx = length x -> length du = length u ->
  nth i (affine_model fs x u t (vadd x dx) (vadd u du)) 0 =
    evalR (nth i fs ET) x u t + dirder (nth i fs ET) x u dx du t.
Proof.
  intros Hi HLx HLu. pose proof (affine_component_line fs x u t dx du 1 i Hi HLx HLu) as H.
  rewrite !xl_1 in H. rewrite H. ring.
Qed.

(* SECOND ORDER IN THE DISTANCE: for every f, reference point (x, u, t), component i and radius rho
   there is ONE constant M = B2 f_i (|x|_1 + |u|_1 + rho) t, computed from the tree, such that at every
   point (x + dx, u + du) within l1-distance rho the affine model A (x+dx) + B (u+du) + c1 differs
   from f by at most M * distance^2 / 2 *)
Theorem nls_second_order_uniform (fs : list (fexpr (F:=R))) x u t rho i dx du :
  (i < length fs)%nat -> 0 <= rho ->
  length dx = length x -> length du = length u -> norm1 dx + norm1 du <= rho ->
  Rabs (nth i (evals fs (vadd x dx) (vadd u du) t) 0 - nth i (affine_model fs x u t (vadd x dx) (vadd u du)) 0)
    <= B2 (nth i fs ET) (boxr x u rho) t * (norm1 dx + norm1 du) ^ 2 / 2.
Proof.
  intros Hi Hr HLx HLu HN. destruct (boxr_seg x u rho dx du Hr HLx HLu HN) as [HQ Hseg].
  rewrite affine_component_at by assumption.
  unfold evals. rewrite (nth_map_R _ fs ET) by assumption.
  now apply segment_second_order.
Qed.

(* first order (Lipschitz) bound for f itself on the same ball *)
Theorem nls_first_order_uniform (fs : list (fexpr (F:=R))) x u t rho i dx du :
  (i < length fs)%nat -> 0 <= rho ->
  length dx = length x -> length du = length u -> norm1 dx + norm1 du <= rho ->
  Rabs (nth i (evals fs (vadd x dx) (vadd u du) t) 0 - nth i (evals fs x u t) 0)
    <= B1 (nth i fs ET) (boxr x u rho) t * (norm1 dx + norm1 du).
Proof.
  intros Hi Hr HLx HLu HN. destruct (boxr_seg x u rho dx du Hr HLx HLu HN) as [HQ Hseg].
  unfold evals. rewrite !(nth_map_R _ fs ET) by assumption.
  now apply segment_first_order.
Qed.

(* the Jacobian read at the reference point against the Jacobian at a displaced point: every entry
   differs by at most B2 * distance (so A, B, C, D are first-order accurate away from the reference) *)
Lemma dirder_basis_x e x u t j : (j < length x)%nat ->
  dirder e x u (basis j (length x)) (repeat 0 (length u)) t = evalR (deriv e (VX j)) x u t.
Proof.
  intros Hj. unfold dirder. rewrite dot_zeros_r, Rplus_0_r, dot_basis, basis_length.
  replace (j <? length x)%nat with true by (symmetry; apply Nat.ltb_lt; lia).
  unfold gradx. now rewrite nth_map_seq.
Qed.
Lemma dirder_basis_u e x u t j : (j < length u)%nat ->
  dirder e x u (repeat 0 (length x)) (basis j (length u)) t = evalR (deriv e (VU j)) x u t.
Proof.
  intros Hj. unfold dirder. rewrite dot_zeros_r, Rplus_0_l, dot_basis, basis_length.
  replace (j <? length u)%nat with true by (symmetry; apply Nat.ltb_lt; lia).
  unfold gradu. now rewrite nth_map_seq.
Qed.
Lemma norm1_zeros n : norm1 (repeat 0 n) = 0.
Proof. induction n as [|n IH]; [reflexivity|]. cbn [repeat]. rewrite norm1_cons, IH, Rabs_R0. ring. Qed.
Lemma norm1_basis : forall n j, (j < n)%nat -> norm1 (basis j n) = 1.
Proof.
  induction n as [|n IH]; intros j Hj; [lia|]. destruct j as [|j]; cbn [basis]; rewrite norm1_cons.
  - rewrite norm1_zeros, Rabs_R1. ring.
  - rewrite IH by lia. rewrite Rabs_R0. ring.
Qed.
Lemma vadd_length' (a b : list R) : length a = length b -> length (vadd a b) = length a.
Proof. apply vadd_length. Qed.

Theorem nls_jacobian_drift_x (e : fexpr (F:=R)) x u t rho dx du j :
  (j < length x)%nat -> 0 <= rho ->
  length dx = length x -> length du = length u -> norm1 dx + norm1 du <= rho ->
  Rabs (evalR (deriv e (VX j)) (vadd x dx) (vadd u du) t - evalR (deriv e (VX j)) x u t)
    <= B2 e (boxr x u rho) t * (norm1 dx + norm1 du).
Proof.
  intros Hj Hr HLx HLu HN. destruct (boxr_seg x u rho dx du Hr HLx HLu HN) as [HQ Hseg].
  pose proof (segment_jacobian_drift e t (boxr x u rho) x u dx du HLx HLu HQ Hseg
                (basis j (length x)) (repeat 0 (length u))) as H.
  rewrite norm1_zeros, norm1_basis in H by assumption.
  rewrite dirder_basis_x in H by assumption.
  assert (L1 : length (vadd x dx) = length x) by (apply vadd_length; lia).
  assert (L2 : length (vadd u du) = length u) by (apply vadd_length; lia).
  rewrite <- L1 in H at 1. rewrite <- L2 in H at 1. rewrite dirder_basis_x in H by (rewrite L1; assumption).
  eapply Rle_trans; [exact H|]. right. ring.
Qed.
Theorem nls_jacobian_drift_u (e : fexpr (F:=R)) x u t rho dx du j :
  (j < length u)%nat -> 0 <= rho ->
  length dx = length x -> length du = length u -> norm1 dx + norm1 du <= rho ->
  Rabs (evalR (deriv e (VU j)) (vadd x dx) (vadd u du) t - evalR (deriv e (VU j)) x u t)
    <= B2 e (boxr x u rho) t * (norm1 dx + norm1 du).
Proof.
  intros Hj Hr HLx HLu HN. destruct (boxr_seg x u rho dx du Hr HLx HLu HN) as [HQ Hseg].
  pose proof (segment_jacobian_drift e t (boxr x u rho) x u dx du HLx HLu HQ Hseg
                (repeat 0 (length x)) (basis j (length u))) as H.
  rewrite norm1_zeros, norm1_basis in H by assumption.
  rewrite dirder_basis_u in H by assumption.
  assert (L1 : length (vadd x dx) = length x) by (apply vadd_length; lia).
  assert (L2 : length (vadd u du) = length u) by (apply vadd_length; lia).
  rewrite <- L1 in H at 1. rewrite <- L2 in H at 1. rewrite dirder_basis_u in H by (rewrite L2; assumption).
  eapply Rle_trans; [exact H|]. right. ring.
Qed.

(* A, B are the Frechet derivative of f at the reference point: the remainder is o(distance) *)
Theorem nls_frechet (fs : list (fexpr (F:=R))) x u t i : (i < length fs)%nat ->
  forall eps, 0 < eps -> exists delta, 0 < delta /\
    forall dx du, length dx = length x -> length du = length u -> norm1 dx + norm1 du <= delta ->
      Rabs (nth i (evals fs (vadd x dx) (vadd u du) t) 0 - nth i (affine_model fs x u t (vadd x dx) (vadd u du)) 0)
        <= eps * (norm1 dx + norm1 du).
Proof.
  intros Hi eps Heps. set (M := B2 (nth i fs ET) (boxr x u 1) t).
  assert (HM : 0 <= M).
  { apply B2_nonneg. pose proof (norm1_nonneg x). pose proof (norm1_nonneg u). unfold boxr. lra. }
  exists (Rmin 1 (eps / (M + 1))).
  assert (Hd : 0 < eps / (M + 1)) by (apply Rdiv_lt_0_compat; lra).
  split; [apply Rmin_glb_lt; lra|].
  intros dx du HLx HLu HN. set (N := norm1 dx + norm1 du) in *.
  assert (HN0 : 0 <= N) by (pose proof (norm1_nonneg dx); pose proof (norm1_nonneg du); unfold N; lra).
  assert (HN1 : N <= 1) by (eapply Rle_trans; [exact HN|apply Rmin_l]).
  assert (HN2 : N <= eps / (M + 1)) by (eapply Rle_trans; [exact HN|apply Rmin_r]).
  eapply Rle_trans; [apply (nls_second_order_uniform fs x u t 1 i dx du Hi ltac:(lra) HLx HLu HN1)|].
  fold N. fold M.
  assert (HMN : M * N <= eps).
  { apply Rle_trans with ((M + 1) * (eps / (M + 1))); [|right; field; lra].
    apply Rmult_le_compat; lra. }
  replace (M * N ^ 2 / 2) with ((M * N) * N / 2) by (cbn; field). nra.
Qed.

(* non-vacuity and the constant at work: f = x0 * sin(u0) at x = [2], u = [0], ball of radius 1:
   M = B2 = 0*1 + 2*(1*1) + 3*(1*1+0) = 5 (box radius 2 + 0 + 1 = 3) *)
Example second_order_uniform_example (dx du : R) : Rabs dx + 0 + (Rabs du + 0) <= 1 ->
  Rabs ((2 + dx) * sin (0 + du) - nth 0 (affine_model [EMul (EX 0) (ESin (EU 0))] [2] [0] 0 [2 + dx] [0 + du]) 0)
    <= 5 * (Rabs dx + 0 + (Rabs du + 0)) ^ 2 / 2.
Proof.
  intros H.
  pose proof (nls_second_order_uniform [EMul (EX 0) (ESin (EU 0))] [2] [0] 0 1 0 [dx] [du]
                ltac:(cbn; lia) ltac:(lra) eq_refl eq_refl H) as T.
  cbn [nth evals map eval vadd add mul tsin NumR TransR norm1 fold_right] in T.
  eapply Rle_trans; [exact T|]. right.
  unfold boxr. cbn [nth B2 B1 B0 norm1 fold_right]. rewrite Rabs_R0. rewrite (Rabs_pos_eq 2) by lra. field.
Qed.

(* the hypothesis of nls_second_order (Proofs/Dynamics.v: a bound M of the second directional
   derivative d2 along the segment) always holds with the explicit M = B2 * |d|_1^2 *)
Lemma d2_bound_explicit (e : fexpr (F:=R)) x u t rho dx du :
  0 <= rho -> length dx = length x -> length du = length u -> norm1 dx + norm1 du <= rho ->
  forall r, Rmin 0 1 <= r <= Rmax 0 1 ->
    Rabs (d2 e (xl x dx r) (xl u du r) dx du t) <= B2 e (boxr x u rho) t * (norm1 dx + norm1 du) ^ 2.
Proof.
  intros Hr HLx HLu HN r Hrr. rewrite Rmin_left, Rmax_right in Hrr by lra.
  destruct (boxr_seg x u rho dx du Hr HLx HLu HN) as [HQ Hseg]. destruct (Hseg r Hrr) as [H1 H2].
  rewrite d2_is_DD by (now rewrite xl_length).
  replace ((norm1 dx + norm1 du) ^ 2) with ((norm1 dx + norm1 du) * (norm1 dx + norm1 du)) by ring.
  now apply DD_bound.
Qed.

(* when the constant vanishes (f affine in (x, u): sums of constant or time-only factors times
   variables) the linearisation is exact at EVERY point, not only at the reference point *)
Theorem nls_affine_exact (fs : list (fexpr (F:=R))) x u t i dx du :
  (i < length fs)%nat -> length dx = length x -> length du = length u ->
  B2 (nth i fs ET) (boxr x u (norm1 dx + norm1 du)) t = 0 ->
  nth i (evals fs (vadd x dx) (vadd u du) t) 0 = nth i (affine_model fs x u t (vadd x dx) (vadd u du)) 0.
Proof.
  intros Hi HLx HLu HB.
  assert (Hr : 0 <= norm1 dx + norm1 du) by (pose proof (norm1_nonneg dx); pose proof (norm1_nonneg du); lra).
  pose proof (nls_second_order_uniform fs x u t _ i dx du Hi Hr HLx HLu (Rle_refl _)) as H.
  rewrite HB in H. replace (0 * (norm1 dx + norm1 du) ^ 2 / 2) with 0 in H by (unfold Rdiv; ring).
  pose proof (Rabs_pos (nth i (evals fs (vadd x dx) (vadd u du) t) 0 -
                        nth i (affine_model fs x u t (vadd x dx) (vadd u du)) 0)) as H0.
  assert (E : Rabs (nth i (evals fs (vadd x dx) (vadd u du) t) 0 -
                    nth i (affine_model fs x u t (vadd x dx) (vadd u du)) 0) = 0) by lra.
  apply Rminus_diag_uniq. destruct (Req_dec (nth i (evals fs (vadd x dx) (vadd u du) t) 0 -
                        nth i (affine_model fs x u t (vadd x dx) (vadd u du)) 0) 0) as [Z|NZ]; [exact Z|].
  apply Rabs_no_R0 in NZ. contradiction.
Qed.
(* e.g. the time-varying linear f = 3 x0 + t u0 *)
Example affine_exact_example (x0 u0 t dx du : R) :
  nth 0 (evals [EAdd (EMul (EConst 3) (EX 0)) (EMul ET (EU 0))] [x0 + dx] [u0 + du] t) 0 =
  nth 0 (affine_model [EAdd (EMul (EConst 3) (EX 0)) (EMul ET (EU 0))] [x0] [u0] t [x0 + dx] [u0 + du]) 0.
Proof.
  apply (nls_affine_exact [EAdd (EMul (EConst 3) (EX 0)) (EMul ET (EU 0))] [x0] [u0] t 0 [dx] [du]);
    try reflexivity; [cbn; lia|].
  cbn [nth B2 B1 B0]. ring.
Qed.
