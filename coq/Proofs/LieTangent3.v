(* C05 (extension): Exp(-a) = Inv(Exp(a)) for se3, rxso3, sim3; Jr / Jinvp clauses (over R). *)
From Coq Require Import Reals Lra Psatz List Nsatz.
Import ListNotations.
From PV Require Import Base.Num Base.RTac Model.LieGroup Model.LieExp Model.LieLog Model.LieJac Model.LieTangent
  Proofs.LieGroup Proofs.LieExp Proofs.LieLog Proofs.LieTangent Proofs.LieTangent2.
Local Open Scope R_scope.
#[local] Remove Hints NumQ NumZ : typeclass_instances.

(* ---------------- rxso3: exact in every regime *)
Lemma rxso3_exp_neg (eps : R) (phi : vec3R) (sg : R) :
  rxso3_exp eps (vneg phi, - sg) = RxSO3_inv (rxso3_exp eps (phi, sg)).
Proof.
  unfold rxso3_exp, RxSO3_inv. cbn [fst snd texp TransR]. apply pair_eq; [apply so3_exp_neg|].
  rewrite exp_Ropp. num_simpl. field. pose proof (exp_pos sg). lra.
Qed.

(* ---------------- se3: Jl(-phi) = Exp(-phi) Jl(phi) on the closed-form branch *)
Lemma so3_Jl_neg_rot (eps : R) (phi : vec3R) : 0 <= eps -> eps < vnorm phi ->
  mmul3 (SO3_matrix (so3_exp eps (vneg phi))) (so3_Jl eps phi) = so3_Jl eps (vneg phi).
Proof.
  intros He H. rewrite so3_matrix_rodrigues by (auto; rewrite vnorm_neg; assumption).
  pose proof (vnorm_sq phi) as Hs. unfold rodrigues, so3_Jl, so3_Jl_coef. rewrite !vnorm_neg.
  replace (ltb eps (vnorm phi)) with true by (symmetry; cbn; now apply Rltb_true).
  cbn [fst snd]. set (th := vnorm phi) in *. assert (Ht : th <> 0) by lra. clearbody th.
  destruct phi as [[a b] c].
  assert (Hn : a * a + b * b + c * c = th * th) by (revert Hs; lie_unfold; intros; lra).
  pose proof (sin2_cos2 th) as Hsc. unfold Rsqr in Hsc.
  num_simpl. set (S := sin th) in *. set (C := cos th) in *. clearbody S C. clear Hs He H. lie_unfold.
  split_pairs; field_simplify_eq; auto; cbn [Rpow_def.pow]; clear Ht; nsatz.
Qed.
Lemma se3_exp_neg (eps : R) (tau phi : vec3R) : 0 <= eps -> eps < vnorm phi ->
  se3_exp eps (vneg tau, vneg phi) = SE3_inv (se3_exp eps (tau, phi)).
Proof.
  intros He H. unfold se3_exp, SE3_inv. cbn [fst snd]. apply pair_eq; [|apply so3_exp_neg].
  rewrite <- so3_exp_neg, SO3_act_is_matrix, mvmul_mmul3, so3_Jl_neg_rot by assumption.
  apply mvmul_vneg.
Qed.
(* pure translation *)
Lemma so3_Jl_zero (eps : R) (v : vec3R) : mvmul (so3_Jl eps vzero) v = v.
Proof.
  rewrite so3_Jl_poly2. generalize (so3_Jl_coef eps (vnorm (F:=R) vzero)). intros [c1 c2]. cbn [fst snd].
  unfold poly2. destruct v as [[p q] r]. lie_unfold. split_pairs; ring.
Qed.
Lemma vneg_zero : vneg (F:=R) vzero = vzero.
Proof. lie_unfold. split_pairs; ring. Qed.
Lemma se3_exp_neg_translation (eps : R) (tau : vec3R) : 0 <= eps ->
  se3_exp eps (vneg tau, vneg vzero) = SE3_inv (se3_exp eps (tau, vzero)).
Proof.
  intros He. rewrite vneg_zero. unfold se3_exp, SE3_inv. cbn [fst snd]. rewrite !so3_Jl_zero, so3_exp_zero by assumption.
  destruct tau as [[p q] r]. lie_unfold. split_pairs; ring.
Qed.
Theorem se3_exp_neg_gen (eps : R) (tau phi : vec3R) : 0 <= eps -> eps < vnorm phi \/ phi = vzero ->
  se3_exp eps (vneg tau, vneg phi) = SE3_inv (se3_exp eps (tau, phi)).
Proof. intros He [H| ->]; [now apply se3_exp_neg | now apply se3_exp_neg_translation]. Qed.

(* ---------------- polynomials x0 I + x1 K + x2 K^2 in K = [x]x  (K^3 = -|x|^2 K) *)
Definition pm (x0 x1 x2 : R) (K : @mat3 R) : @mat3 R :=
  madd3 (madd3 (mscale3 x0 mid3) (mscale3 x1 K)) (mscale3 x2 (mmul3 K K)).
Lemma pm_mul (a b c s x0 x1 x2 y0 y1 y2 : R) : a * a + b * b + c * c = s ->
  mmul3 (pm x0 x1 x2 (skew (a, b, c))) (pm y0 y1 y2 (skew (a, b, c))) =
  pm (x0 * y0) (x0 * y1 + x1 * y0 - s * (x1 * y2 + x2 * y1)) (x0 * y2 + x1 * y1 + x2 * y0 - s * (x2 * y2)) (skew (a, b, c)).
Proof. intros <-. unfold pm. lie_unfold. split_pairs; ring. Qed.
Lemma pm_scale (k x0 x1 x2 : R) (K : @mat3 R) : mscale3 k (pm x0 x1 x2 K) = pm (k * x0) (k * x1) (k * x2) K.
Proof. unfold pm. destruct K as [[[[k00 k01] k02] [[k10 k11] k12]] [[k20 k21] k22]]. lie_unfold. split_pairs; ring. Qed.
Lemma pm_neg (x0 x1 x2 : R) (x : vec3R) : pm x0 x1 x2 (skew (vneg x)) = pm x0 (- x1) x2 (skew x).
Proof. unfold pm. destruct x as [[a b] c]. lie_unfold. split_pairs; ring. Qed.
Lemma pm_ext (x0 x1 x2 y0 y1 y2 : R) K : x0 = y0 -> x1 = y1 -> x2 = y2 -> pm x0 x1 x2 K = pm y0 y1 y2 K.
Proof. intros -> -> ->. reflexivity. Qed.
Lemma rodrigues_pm (x : vec3R) :
  rodrigues x = pm 1 (sin (vnorm x) / vnorm x) ((1 - cos (vnorm x)) / (vnorm x * vnorm x)) (skew x).
Proof.
  unfold rodrigues, pm. cbv zeta. generalize (sin (vnorm x) / vnorm x) ((1 - cos (vnorm x)) / (vnorm x * vnorm x)).
  intros k1 k2. destruct x as [[a b] c]. lie_unfold. split_pairs; ring.
Qed.
Lemma rxso3_Ws_pm (eps : R) (x : vec3R) (sg : R) :
  rxso3_Ws eps (x, sg) = pm (snd (rxso3_Ws_coef eps (vnorm x) sg)) (fst (fst (rxso3_Ws_coef eps (vnorm x) sg)))
                            (snd (fst (rxso3_Ws_coef eps (vnorm x) sg))) (skew x).
Proof.
  unfold rxso3_Ws, pm. cbn [fst snd]. generalize (rxso3_Ws_coef eps (vnorm x) sg). intros [[A B] C]. cbn [fst snd].
  destruct x as [[a b] c]. lie_unfold. split_pairs; ring.
Qed.
Lemma so3_Jl_pm (eps : R) (x : vec3R) :
  so3_Jl eps x = pm 1 (fst (so3_Jl_coef eps (vnorm x))) (snd (so3_Jl_coef eps (vnorm x))) (skew x).
Proof.
  unfold so3_Jl, pm. generalize (so3_Jl_coef eps (vnorm x)). intros [c1 c2]. cbn [fst snd].
  destruct x as [[a b] c]. lie_unfold. split_pairs; ring.
Qed.

(* ---------------- sim3: Ws(-phi, -sigma) = exp(-sigma) Exp(-phi) Ws(phi, sigma) on the closed-form branch *)
Lemma rxso3_Ws_neg_rot (eps : R) (phi : vec3R) (sg : R) : 0 <= eps -> eps < vnorm phi -> eps < Rabs sg ->
  mmul3 (mscale3 (exp (- sg)) (SO3_matrix (so3_exp eps (vneg phi)))) (rxso3_Ws eps (phi, sg)) = rxso3_Ws eps (vneg phi, - sg).
Proof.
  intros He H Hsg. rewrite so3_matrix_rodrigues by (auto; rewrite vnorm_neg; assumption).
  pose proof (vnorm_sq phi) as Hs. rewrite rodrigues_pm, !rxso3_Ws_pm, !vnorm_neg, !pm_neg, pm_scale.
  unfold rxso3_Ws_coef. rewrite !absF_lt by (rewrite ?Rabs_Ropp; assumption).
  replace (ltb eps (vnorm phi)) with true by (symmetry; cbn; now apply Rltb_true).
  cbn [fst snd]. set (th := vnorm phi) in *. assert (Ht : th <> 0) by lra.
  assert (Hs0 : sg <> 0) by (intros ->; rewrite Rabs_R0 in Hsg; lra).
  assert (Hs1 : - sg <> 0) by lra.
  assert (Hc : th * th + sg * sg <> 0) by nra.
  assert (Hc1 : th * th + - sg * - sg <> 0) by nra. clearbody th.
  destruct phi as [[a b] c].
  assert (Hn : a * a + b * b + c * c = th * th) by (revert Hs; lie_unfold; intros; lra).
  rewrite (pm_mul a b c (th * th)) by exact Hn.
  pose proof (sin2_cos2 th) as Hsc. unfold Rsqr in Hsc.
  assert (HE : exp sg * exp (- sg) = 1) by (rewrite <- exp_plus, Rplus_opp_r; apply exp_0).
  num_simpl. set (S := sin th) in *. set (C := cos th) in *. set (E := exp sg) in *. set (Ei := exp (- sg)) in *.
  clearbody S C E Ei. clear Hs He H Hsg Hn.
  apply pm_ext; field_simplify_eq; auto; cbn [Rpow_def.pow]; clear - Hsc HE; nsatz.
Qed.
Lemma sim3_exp_neg (eps : R) (tau phi : vec3R) (sg : R) : 0 <= eps -> eps < vnorm phi -> eps < Rabs sg ->
  sim3_exp eps (vneg tau, (vneg phi, - sg)) = Sim3_inv (sim3_exp eps (tau, (phi, sg))).
Proof.
  intros He H Hsg. unfold sim3_exp, Sim3_inv. cbn [fst snd]. apply pair_eq; [|apply rxso3_exp_neg].
  rewrite <- rxso3_exp_neg. unfold rxso3_exp, RxSO3_act. cbn [fst snd texp TransR].
  rewrite SO3_act_is_matrix, <- mvmul_vscale, mvmul_vneg. rewrite <- rxso3_Ws_neg_rot by assumption.
  rewrite <- mvmul_mmul3. f_equal.
  generalize (mvmul (rxso3_Ws eps (phi, sg)) tau) (SO3_matrix (so3_exp eps (vneg phi))) (exp (- sg)). intros u M k.
  destruct u as [[u0 u1] u2]. lie_ring.
Qed.

(* the other exact regimes: sigma = 0 (Ws = Jl) and phi = 0 (Ws = C I) *)
Lemma pm_zero (x0 x1 x2 : R) : pm x0 x1 x2 (skew vzero) = mscale3 x0 mid3.
Proof. unfold pm. lie_unfold. split_pairs; ring. Qed.
Lemma SO3_matrix_id : SO3_matrix (F:=R) SO3_id = mid3.
Proof. lie_unfold. split_pairs; ring. Qed.
Lemma rxso3_Ws_neg_rot_gen (eps : R) (phi : vec3R) (sg : R) : 0 <= eps ->
  eps < vnorm phi \/ phi = vzero -> eps < Rabs sg \/ sg = 0 ->
  mmul3 (mscale3 (exp (- sg)) (SO3_matrix (so3_exp eps (vneg phi)))) (rxso3_Ws eps (phi, sg)) = rxso3_Ws eps (vneg phi, - sg).
Proof.
  intros He [H| ->] [Hsg| ->].
  - now apply rxso3_Ws_neg_rot.
  - rewrite Ropp_0, exp_0. rewrite so3_matrix_rodrigues by (auto; rewrite vnorm_neg; assumption).
    pose proof (vnorm_sq phi) as Hs. rewrite rodrigues_pm, !rxso3_Ws_pm, !vnorm_neg, !pm_neg, pm_scale.
    unfold rxso3_Ws_coef. rewrite !absF_zero_branch by assumption.
    replace (ltb eps (vnorm phi)) with true by (symmetry; cbn; now apply Rltb_true).
    cbn [fst snd]. set (th := vnorm phi) in *. assert (Ht : th <> 0) by lra. clearbody th.
    destruct phi as [[a b] c].
    assert (Hn : a * a + b * b + c * c = th * th) by (revert Hs; lie_unfold; intros; lra).
    rewrite (pm_mul a b c (th * th)) by exact Hn.
    pose proof (sin2_cos2 th) as Hsc. unfold Rsqr in Hsc.
    num_simpl. set (S := sin th) in *. set (C := cos th) in *. clearbody S C. clear Hs He H Hn.
    apply pm_ext; field_simplify_eq; auto; cbn [Rpow_def.pow]; clear - Hsc; nsatz.
  - rewrite vneg_zero, so3_exp_zero, SO3_matrix_id, !rxso3_Ws_pm, !pm_zero by assumption.
    unfold rxso3_Ws_coef. rewrite !absF_lt by (rewrite ?Rabs_Ropp; assumption). rewrite vnorm_zero.
    replace (ltb eps 0) with false by (symmetry; cbn; now apply Rltb_false).
    cbn [fst snd].
    assert (Hs0 : sg <> 0) by (intros ->; rewrite Rabs_R0 in Hsg; lra).
    assert (HE : exp sg * exp (- sg) = 1) by (rewrite <- exp_plus, Rplus_opp_r; apply exp_0).
    num_simpl. set (E := exp sg) in *. set (Ei := exp (- sg)) in *. clearbody E Ei.
    lie_unfold. split_pairs; field_simplify_eq; auto; clear - HE; nsatz.
  - rewrite Ropp_0, exp_0, vneg_zero, so3_exp_zero, SO3_matrix_id, !rxso3_Ws_pm, !pm_zero by assumption.
    unfold rxso3_Ws_coef. rewrite !absF_zero_branch by assumption. rewrite vnorm_zero.
    replace (ltb eps 0) with false by (symmetry; cbn; now apply Rltb_false).
    cbn [fst snd]. lie_unfold. split_pairs; ring.
Qed.
Theorem sim3_exp_neg_gen (eps : R) (tau phi : vec3R) (sg : R) : 0 <= eps ->
  eps < vnorm phi \/ phi = vzero -> eps < Rabs sg \/ sg = 0 ->
  sim3_exp eps (vneg tau, (vneg phi, - sg)) = Sim3_inv (sim3_exp eps (tau, (phi, sg))).
Proof.
  intros He H Hsg. unfold sim3_exp, Sim3_inv. cbn [fst snd]. apply pair_eq; [|apply rxso3_exp_neg].
  rewrite <- rxso3_exp_neg. unfold rxso3_exp, RxSO3_act. cbn [fst snd texp TransR].
  rewrite SO3_act_is_matrix, <- mvmul_vscale, mvmul_vneg. rewrite <- rxso3_Ws_neg_rot_gen by assumption.
  rewrite <- mvmul_mmul3. f_equal.
  generalize (mvmul (rxso3_Ws eps (phi, sg)) tau) (SO3_matrix (so3_exp eps (vneg phi))) (exp (- sg)). intros u M k.
  destruct u as [[u0 u1] u2]. lie_ring.
Qed.
