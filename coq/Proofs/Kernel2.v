(* C09, second file: whole-tensor kernel statements, parameter rejection, Huber's second derivative at
   the threshold, the correctors at a residual that is exactly zero, and Triggs' documented closed form
   (alpha is the non-positive root of the documented quadratic; entries of the corrected Jacobian). *)
From Coq Require Import Reals Lra Psatz List Lia Bool.
From Coquelicot Require Import Coquelicot.
Import ListNotations.
From PV Require Import Base.Num Base.RTac Model.Kernel Proofs.Kernel.
Local Open Scope R_scope.
#[local] Remove Hints NumQ NumZ : typeclass_instances.

(* ====================================================================== kernels on whole tensors *)
(* forward on a tensor (flattened to a list): `assert torch.all(input >= 0)` then elementwise *)
Lemma kernel_tensor_closed_form k p1 p2 (xs : list R) : kernel_params k p1 p2 ->
  Forall (fun x => 0 <= x) xs ->
  mapM (kernel k p1 p2) xs = Some (map (documented_form k p1 p2) xs).
Proof.
  intros Hp H. induction H as [|x xs Hx _ IH]; cbn; [reflexivity|].
  destruct (kernel_closed_form k p1 p2 x Hp Hx) as [-> _]. rewrite IH. reflexivity.
Qed.

Lemma kernel_tensor_rejects_negative k p1 p2 (xs : list R) :
  Exists (fun x => x < 0) xs -> mapM (kernel k p1 p2) xs = None.
Proof.
  intros H. induction H as [x xs Hx|x xs _ IH]; cbn.
  - rewrite kernel_rejects_negative by auto. reflexivity.
  - rewrite IH. destruct (kernel k p1 p2 x); reflexivity.
Qed.

(* a tensor is accepted iff all its elements are non-negative *)
Lemma kernel_tensor_accepts_iff k p1 p2 (xs : list R) : kernel_params k p1 p2 ->
  (exists ys, mapM (kernel k p1 p2) xs = Some ys) <-> Forall (fun x => 0 <= x) xs.
Proof.
  intros Hp. split.
  - intros [ys H]. apply Forall_forall. intros x Hin.
    destruct (Rle_dec 0 x) as [|Hn]; auto. exfalso.
    rewrite kernel_tensor_rejects_negative in H; [discriminate|].
    apply Exists_exists. exists x. split; auto. lra.
  - intros H. eexists. now apply kernel_tensor_closed_form.
Qed.

(* ====================================================================== parameter rejection *)
Lemma kernel_rejects_bad_params k p1 p2 x : k <> KArctan -> ~ kernel_params k p1 p2 ->
  kernel k p1 p2 x = None.
Proof.
  intros Hk Hp. apply kernel_ok_false.
  destruct k; cbn in *; try congruence.
  1-4: apply Rltb_false; lra.
  - apply andb_false_iff. rewrite !Rltb_false.
    destruct (Rlt_dec 0 p1); [|left; lra]. destruct (Rlt_dec p2 0); [exfalso; apply Hp; auto|right; lra].
  - apply andb_false_iff. rewrite Rltb_false, Rleb_false.
    destruct (Rlt_dec 0 p1); [|left; lra]. destruct (Rle_dec p1 1); [exfalso; apply Hp; lra|right; lra].
Qed.
Lemma arctan_delta0_undefined p2 x : kernel KArctan 0 p2 x = None.
Proof.
  unfold kernel. cbn [kernel_ok negb]. cbn [leb eqb NumR zero mul].
  destruct (Rleb 0 x); [|reflexivity].
  replace (Reqb (0 * 0) 0) with true; [reflexivity|]. symmetry. apply Reqb_true. ring.
Qed.

(* ====================================================================== values of rho' at x = 0 *)
Lemma kernel_d1_at_0 k p1 p2 : kernel_params k p1 p2 ->
  kernel_d1 k p1 p2 0 =
  match k with
  | KHuber | KPseudoHuber | KCauchy | KArctan => 1
  | KSoftLOne => p1 * p1
  | KTolerant => exp (- p1 / p2) / (1 + exp (- p1 / p2))
  | KScale => p1
  end.
Proof.
  intros Hp. destruct k; cbn in Hp.
  - apply huber_d1_below; nra.
  - cbn [kernel_d1]. rnum. replace (0 / (p1 * p1) + 1) with 1 by (field; lra). rewrite sqrt_1. field.
  - cbn [kernel_d1]. rnum. field. lra.
  - cbn [kernel_d1]. rnum. replace (1 / (p1 * p1) + 0) with ((/ p1) * (/ p1)) by (field; lra).
    rewrite sqrt_square by (left; apply Rinv_0_lt_compat; lra). field. lra.
  - cbn [kernel_d1]. rnum. cbv zeta. field. lra.
  - cbn [kernel_d1]. rnum. cbv zeta. replace ((0 - p1) / p2) with (- p1 / p2) by (field; lra). reflexivity.
  - reflexivity.
Qed.
Lemma kernel_d1_at_0_pos k p1 p2 : kernel_params k p1 p2 -> 0 < kernel_d1 k p1 p2 0.
Proof.
  intros Hp. rewrite kernel_d1_at_0 by auto. destruct k; cbn in Hp; try lra.
  - nra.
  - pose proof (exp_pos (- p1 / p2)). apply Rdiv_lt_0_compat; lra.
Qed.

(* ====================================================================== Huber, second derivative at the threshold *)
(* the slope function is 1 to the left of delta^2 and delta / sqrt x from delta^2 on *)
Lemma huber_d1_pieces d p2 : 0 < d ->
  (forall t, t < d * d -> kernel_d1 KHuber d p2 t = 1) /\
  (forall t, d * d <= t -> kernel_d1 KHuber d p2 t = d / sqrt t).
Proof. intros Hd. split; intros t Ht; [now apply huber_d1_below|now apply huber_d1_above]. Qed.

(* what autograd returns for rho'' at the threshold (the "otherwise" branch) is the derivative of
   the right-hand piece: - 1 / (2 delta^2) *)
Lemma huber_d2_threshold_value d p2 : 0 < d -> kernel_d2 KHuber d p2 (d * d) = - (1 / (2 * (d * d))).
Proof.
  intros Hd. rewrite huber_d2_above by lra. rewrite sqrt_square by lra. field. lra.
Qed.
Lemma huber_d2_right_piece d p2 : 0 < d ->
  is_derive (fun t => d / sqrt t) (d * d) (kernel_d2 KHuber d p2 (d * d)).
Proof.
  intros Hd. rewrite huber_d2_threshold_value by auto.
  assert (Hdd : 0 < d * d) by nra. assert (Hsq : sqrt (d * d) = d) by (apply sqrt_square; lra).
  auto_derive.
  - rewrite Hsq. split; [lra|]. split; [lra|auto].
  - rewrite Hsq. field. lra.
Qed.
Lemma huber_d2_left_piece d : is_derive (fun _ : R => 1) (d * d) 0.
Proof. auto_derive; auto. Qed.

(* the two one-sided derivatives differ, so rho'' does not exist at the threshold *)
Lemma huber_d2_not_derivable d p2 : 0 < d -> ~ ex_derive (kernel_d1 KHuber d p2) (d * d).
Proof.
  intros Hd [l Hl]. assert (Hdd : 0 < d * d) by nra.
  pose proof (huber_d2_right_piece d p2 Hd) as Hr. rewrite huber_d2_threshold_value in Hr by auto.
  set (lg := - (1 / (2 * (d * d)))) in *.
  assert (Hlg : lg < 0).
  { unfold lg. assert (0 < 1 / (2 * (d * d))) by (apply Rdiv_lt_0_compat; lra). lra. }
  apply is_derive_Reals in Hl. apply is_derive_Reals in Hr.
  set (eps := - lg / 4). assert (Heps : 0 < eps) by (unfold eps; lra).
  destruct (Hl eps Heps) as [d1 H1]. destruct (Hr eps Heps) as [d2 H2].
  set (h := Rmin d1 d2 / 2).
  assert (Hh : 0 < h) by (unfold h; pose proof (Rmin_pos _ _ (cond_pos d1) (cond_pos d2)); lra).
  assert (Hh1 : h < d1) by (unfold h; pose proof (Rmin_l d1 d2); pose proof (Rmin_pos _ _ (cond_pos d1) (cond_pos d2)); lra).
  assert (Hh2 : h < d2) by (unfold h; pose proof (Rmin_r d1 d2); pose proof (Rmin_pos _ _ (cond_pos d1) (cond_pos d2)); lra).
  (* from the left: difference quotient 0 *)
  assert (HL : Rabs (0 - l) < eps).
  { specialize (H1 (- h)). rewrite Rabs_Ropp, Rabs_pos_eq in H1 by lra.
    specialize (H1 ltac:(lra) Hh1).
    rewrite (huber_d1_below d p2 (d * d + - h)) in H1 by (auto; lra).
    rewrite (huber_d1_above d p2 (d * d)) in H1 by lra. rewrite sqrt_square in H1 by lra.
    replace ((1 - d / d) / - h) with 0 in H1 by (field; lra). exact H1. }
  (* from the right: the quotient of d / sqrt *)
  assert (HR : Rabs ((d / sqrt (d * d + h) - d / sqrt (d * d)) / h - l) < eps).
  { specialize (H1 h). rewrite Rabs_pos_eq in H1 by lra. specialize (H1 ltac:(lra) Hh1).
    rewrite (huber_d1_above d p2 (d * d + h)) in H1 by (auto; lra).
    rewrite (huber_d1_above d p2 (d * d)) in H1 by lra. exact H1. }
  assert (HG : Rabs ((d / sqrt (d * d + h) - d / sqrt (d * d)) / h - lg) < eps).
  { specialize (H2 h). rewrite Rabs_pos_eq in H2 by lra. apply H2; lra. }
  set (q := (d / sqrt (d * d + h) - d / sqrt (d * d)) / h) in *. clearbody q.
  apply Rabs_def2 in HL. apply Rabs_def2 in HR. apply Rabs_def2 in HG. unfold eps in *. lra.
Qed.

(* ====================================================================== correctors at R_i = 0 *)
Lemma scale_vec_zeros (s : R) (v : list R) : Forall (fun r => r = 0) v -> scale_vec s v = v.
Proof.
  intros H. unfold scale_vec. induction H as [|r v Hr _ IH]; cbn [map]; [reflexivity|]. rewrite IH.
  subst r. rnum. f_equal. ring.
Qed.
Lemma dot_zeros (v : list R) : Forall (fun r => r = 0) v -> dot v v = 0.
Proof. intros H. induction H as [|r v Hr _ IH]; cbn [dot]; [reflexivity|]. rewrite IH. subst r. rnum. ring. Qed.
Lemma scale_vec_1 (v : list R) : scale_vec 1 v = v.
Proof. unfold scale_vec. induction v as [|a v IH]; cbn [map]; [reflexivity|]. rewrite IH. rnum. f_equal. ring. Qed.
Lemma map_scale_vec_1 (J : list (list R)) : map (scale_vec 1) J = J.
Proof. induction J as [|r J IH]; cbn [map]; [reflexivity|]. now rewrite scale_vec_1, IH. Qed.

(* a block whose residual is exactly zero: both correctors return R' = R = 0 and J' = sqrt(rho'(0)) J,
   whatever rho'' is (Triggs' mask is off at x = 0) *)
Lemma correctors_zero_residual_block (g1 g2 : R) Rv J : 0 <= g1 -> Forall (fun r => r = 0) Rv ->
  fasttriggs_block g1 Rv J = Some (Rv, map (scale_vec (sqrt g1)) J) /\
  triggs_block g1 g2 Rv J = Some (Rv, map (scale_vec (sqrt g1)) J).
Proof.
  intros Hg Hz.
  assert (HF : fasttriggs_block g1 Rv J = Some (Rv, map (scale_vec (sqrt g1)) J)).
  { rewrite fasttriggs_block_some by auto. now rewrite scale_vec_zeros. }
  split; [exact HF|]. rewrite triggs_block_off_mask; [exact HF|].
  apply triggs_mask_false. left. now apply dot_zeros.
Qed.

(* with a built-in kernel: rho'(0) > 0, so the Jacobian rows of a zero residual are kept (scaled by
   sqrt(rho'(0)) = 1 for Huber, PseudoHuber, Cauchy, Arctan) *)
Lemma correctors_zero_residual_kernel k p1 p2 Rv J : kernel_params k p1 p2 ->
  Forall (fun r => r = 0) Rv ->
  let s := sqrt (kernel_d1 k p1 p2 0) in
  0 < s /\
  fasttriggs_kernel k p1 p2 [(Rv, J)] = Some [(Rv, map (scale_vec s) J)] /\
  triggs_kernel k p1 p2 [(Rv, J)] = Some [(Rv, map (scale_vec s) J)].
Proof.
  intros Hp Hz s. pose proof (kernel_d1_at_0_pos k p1 p2 Hp) as Hpos.
  split; [apply sqrt_lt_R0; exact Hpos|].
  unfold fasttriggs_kernel, triggs_kernel, fasttriggs, triggs. cbn [mapM fst snd]. unfold sqnorm. cbn [fst].
  rewrite (dot_zeros Rv Hz).
  destruct (correctors_zero_residual_block (kernel_d1 k p1 p2 0) (kernel_d2 k p1 p2 0) Rv J
              (Rlt_le _ _ Hpos) Hz) as [-> ->].
  split; reflexivity.
Qed.
Lemma correctors_zero_residual_unit_slope k p1 p2 Rv J : kernel_params k p1 p2 ->
  k = KHuber \/ k = KPseudoHuber \/ k = KCauchy \/ k = KArctan ->
  Forall (fun r => r = 0) Rv ->
  fasttriggs_kernel k p1 p2 [(Rv, J)] = Some [(Rv, J)] /\ triggs_kernel k p1 p2 [(Rv, J)] = Some [(Rv, J)].
Proof.
  intros Hp Hk Hz. destruct (correctors_zero_residual_kernel k p1 p2 Rv J Hp Hz) as [_ [H1 H2]].
  assert (Hs : sqrt (kernel_d1 k p1 p2 0) = 1).
  { rewrite kernel_d1_at_0 by auto. destruct Hk as [->|[->|[->| ->]]]; apply sqrt_1. }
  rewrite Hs, map_scale_vec_1 in H1, H2. split; assumption.
Qed.

(* ====================================================================== Triggs: the documented closed form *)
(* alpha = 1 - sqrt(1 + 2 x rho''/rho') is the non-positive root of
   alpha^2 / 2 - alpha - (rho''/rho') |R|^2 = 0   (docstring of Triggs) *)
Definition triggs_alpha (g1 g2 x : R) : R := 1 - triggs_beta g1 g2 x.
Lemma triggs_alpha_root g1 g2 x : 0 < g1 -> 0 < g2 -> 0 <= x ->
  / 2 * (triggs_alpha g1 g2 x * triggs_alpha g1 g2 x) - triggs_alpha g1 g2 x - g2 / g1 * x = 0 /\
  triggs_alpha g1 g2 x <= 0 /\ 1 - triggs_alpha g1 g2 x <> 0.
Proof.
  intros H1 H2 Hx. pose proof (triggs_beta_ge1 g1 g2 x H1 H2 Hx) as Hb.
  pose proof (triggs_beta_sq g1 g2 x H1 H2 Hx) as Hs. unfold triggs_alpha.
  set (beta := triggs_beta g1 g2 x) in *. clearbody beta.
  split; [|split; lra].
  replace (/ 2 * ((1 - beta) * (1 - beta)) - (1 - beta) - g2 / g1 * x)
    with (/ 2 * (beta * beta) - / 2 - g2 / g1 * x) by (field; lra).
  rewrite Hs. field. lra.
Qed.
Lemma triggs_alpha_neg g1 g2 x : 0 < g1 -> 0 < g2 -> 0 < x -> triggs_alpha g1 g2 x < 0.
Proof.
  intros H1 H2 Hx. pose proof (triggs_beta_ge1 g1 g2 x H1 H2 (Rlt_le _ _ Hx)) as Hb.
  pose proof (triggs_beta_sq g1 g2 x H1 H2 (Rlt_le _ _ Hx)) as Hs. unfold triggs_alpha.
  assert (0 < 2 * x * g2 / g1).
  { apply Rmult_lt_0_compat; [nra|]. now apply Rinv_0_lt_compat. }
  set (beta := triggs_beta g1 g2 x) in *. clearbody beta. nra.
Qed.

Lemma nth_corr_col (se c t : R) : forall (Rv A : list R) (k : nat), length A = length Rv ->
  (k < length Rv)%nat -> nth k (corr_col se c t Rv A) 0 = se * nth k A 0 - c * (nth k Rv 0 * t).
Proof.
  induction Rv as [|r Rv IH]; intros [|a A] k HA Hk; cbn in *; try lia; try discriminate.
  destruct k as [|k]; [reflexivity|]. apply IH; lia.
Qed.
Lemma nth_col (J : list (list R)) (l k : nat) : (k < length J)%nat ->
  nth k (col J l) 0 = nth l (nth k J []) 0.
Proof.
  intros Hk. unfold col. change (@zero R NumR) with 0.
  rewrite (nth_indep _ 0 ((fun row : list R => nth l row 0) [])) by (rewrite map_length; auto).
  apply (map_nth (fun row : list R => nth l row 0)).
Qed.
Lemma nth_scale_vec (s : R) (v : list R) (k : nat) : nth k (scale_vec s v) 0 = s * nth k v 0.
Proof.
  unfold scale_vec. replace 0 with (mul s 0) at 1 by (rnum; ring). now rewrite map_nth.
Qed.
Lemma masked_value_rows (g1 g2 : R) Rv J : length J = length Rv ->
  length (snd (triggs_masked_value g1 g2 Rv J)) = length Rv.
Proof.
  intros H. unfold triggs_masked_value. cbv zeta. cbn [snd].
  rewrite map_length, combine_length, map_length. lia.
Qed.

(* entries of the value Triggs returns on a masked block:
   R'_k = sqrt(rho') / (1 - alpha) R_k,
   J'_kl = sqrt(rho') (J_kl - alpha R_k (sum_j R_j J_jl) / |R|^2)      (docstring of Triggs) *)
Lemma triggs_masked_entries (g1 g2 : R) Rv J p : 0 < g1 -> wf_block p (Rv, J) ->
  triggs_mask (dot Rv Rv) g2 = true ->
  exists R' J', triggs_block g1 g2 Rv J = Some (R', J') /\
    length R' = length Rv /\ length J' = length Rv /\
    let alpha := triggs_alpha g1 g2 (dot Rv Rv) in
    (forall k, nth k R' 0 = sqrt g1 / (1 - alpha) * nth k Rv 0) /\
    (forall k l, (k < length Rv)%nat -> (l < p)%nat ->
       nth l (nth k J' []) 0
       = sqrt g1 * (nth l (nth k J []) 0 - alpha * nth k Rv 0 * dot Rv (col J l) / dot Rv Rv)).
Proof.
  intros H1 [Hlen HJ] HM. cbn [fst snd] in *.
  exists (fst (triggs_masked_value g1 g2 Rv J)), (snd (triggs_masked_value g1 g2 Rv J)).
  split; [rewrite triggs_block_on_mask by auto; now destruct (triggs_masked_value g1 g2 Rv J)|].
  pose proof HM as HM'. apply triggs_mask_true in HM' as [Hx H2].
  split; [unfold triggs_masked_value; cbv zeta; cbn [fst]; unfold scale_vec; now rewrite map_length|].
  split; [now apply masked_value_rows|].
  cbv zeta. split.
  - intros k. unfold triggs_masked_value. cbv zeta. cbn [fst]. rewrite nth_scale_vec.
    unfold triggs_alpha. replace (1 - (1 - triggs_beta g1 g2 (dot Rv Rv))) with (triggs_beta g1 g2 (dot Rv Rv)) by ring.
    reflexivity.
  - intros k l Hk Hl.
    rewrite <- (nth_col (snd (triggs_masked_value g1 g2 Rv J)) l k)
      by (rewrite masked_value_rows; auto).
    rewrite (triggs_masked_col g1 g2 Rv J p l Hl HJ).
    rewrite nth_corr_col by (rewrite ?col_length; auto).
    rewrite nth_col by lia. unfold triggs_alpha. field. exact Hx.
Qed.
