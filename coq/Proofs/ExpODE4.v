(* C01: the exponential of the DEGENERATE generators (phi = 0 and/or sigma = 0), existence and uniqueness,
   so that "the matrix exponential" is characterised for EVERY generator of so3, se3, rxso3, sim3
   (total closed forms mexp_so3, mexp_Vmat), what the model returns at those points, and the mixed
   regime (|sigma| <= eps < theta) of rxso3_Ws. *)
From Coq Require Import Reals Lra Psatz List Nsatz.
From Coquelicot Require Import Coquelicot.
Import ListNotations.
From PV Require Import Base.Num Base.RTac Model.LieGroup Model.LieExp Proofs.LieGroup Proofs.LieExp
  Proofs.ExpODE Proofs.ExpODE2 Proofs.ExpODE3.
Local Open Scope R_scope.
#[local] Remove Hints NumQ NumZ : typeclass_instances.

(* ---- vnorm x = 0 iff x = 0 *)
Lemma vnorm_zero (x : vec3R) : vnorm x = 0 -> x = vzero.
Proof.
  intros H. pose proof (vnorm_sq x) as Hs. rewrite H in Hs. destruct x as [[a b] c]. revert Hs. lie_unfold. intros Hs.
  assert (a = 0) by nra. assert (b = 0) by nra. assert (c = 0) by nra. subst. reflexivity.
Qed.
Lemma vnorm_vzero : vnorm (vzero : vec3R) = 0.
Proof.
  unfold vnorm. cbn [tsqrt TransR]. replace (vdot (vzero : vec3R) vzero) with 0 by (lie_unfold; ring). apply sqrt_0.
Qed.

(* ---- scalar linear ODEs *)
Lemma scalar_ode_unique (f : R -> R) (sg : R) :
  (forall t, is_derive f t (sg * f t)) -> forall t, f t = exp (t * sg) * f 0.
Proof.
  intros H t.
  pose (g := fun t => exp (- t * sg) * f t).
  assert (Hg : forall u, is_derive g u 0).
  { intros u. unfold g. assert (ex_derive f u) by (eexists; apply H). auto_derive; [auto|].
    change (Derive (fun x => f x) u) with (Derive f u). rewrite (is_derive_unique _ _ _ (H u)). ring. }
  pose proof (zero_derivative_const g Hg t) as Hc. unfold g in Hc.
  replace (- 0 * sg) with 0 in Hc by ring. rewrite exp_0, Rmult_1_l in Hc.
  rewrite <- Hc, <- Rmult_assoc, exp_cancel. ring.
Qed.
Lemma affine_ode_unique (f g : R -> R) (sg u : R) :
  (forall t, is_derive f t (sg * f t + u)) -> (forall t, is_derive g t (sg * g t + u)) -> f 0 = g 0 ->
  forall t, f t = g t.
Proof.
  intros Hf Hg H0 t.
  pose (d := fun t => f t - g t).
  assert (Hd : forall u0, is_derive d u0 (sg * d u0)).
  { intros u0. unfold d. assert (ex_derive f u0) by (eexists; apply Hf). assert (ex_derive g u0) by (eexists; apply Hg).
    auto_derive; [auto|].
    change (Derive (fun x => f x) u0) with (Derive f u0). change (Derive (fun x => g x) u0) with (Derive g u0).
    rewrite (is_derive_unique _ _ _ (Hf u0)), (is_derive_unique _ _ _ (Hg u0)). ring. }
  pose proof (scalar_ode_unique d sg Hd t) as Hc. unfold d in Hc. rewrite H0 in Hc. lra.
Qed.

(* the integral of exp(s sigma) over [0, t]:  t for sigma = 0, (exp(t sigma) - 1)/sigma otherwise *)
Definition Ct (sg t : R) : R := if Req_EM_T sg 0 then t else (exp (t * sg) - 1) / sg.
Definition Cex (sg : R) : R := if Req_EM_T sg 0 then 1 else (exp sg - 1) / sg.
Lemma Ct_1 sg : Ct sg 1 = Cex sg.
Proof. unfold Ct, Cex. destruct (Req_EM_T sg 0); [reflexivity | now rewrite Rmult_1_l]. Qed.
Lemma Ct_0 sg : Ct sg 0 = 0.
Proof. unfold Ct. destruct (Req_EM_T sg 0); [reflexivity|]. rewrite Rmult_0_l, exp_0. field; auto. Qed.
Lemma Cex_0 : Cex 0 = 1.
Proof. unfold Cex. destruct (Req_EM_T 0 0); [reflexivity | contradiction]. Qed.
Lemma Cex_nz sg : sg <> 0 -> Cex sg = (exp sg - 1) / sg.
Proof. intros H. unfold Cex. destruct (Req_EM_T sg 0); [contradiction | reflexivity]. Qed.
Lemma Ct_ode sg u t : is_derive (fun t => Ct sg t * u) t (sg * (Ct sg t * u) + u).
Proof.
  unfold Ct. destruct (Req_EM_T sg 0) as [->|Hs].
  - auto_derive; [exact I | ring].
  - auto_derive; [exact I | field; auto].
Qed.

(* ---- a generator that acts as sigma I (this is [phi]x + sigma I for phi = 0) *)
Section Diagonal.
Variable sg : R.
Variable G : @mat3 R.
Hypothesis HG : forall (M : @mat3 R) i j, (i < 3)%nat -> (j < 3)%nat -> m3get (mmul3 G M) i j = sg * m3get M i j.
Hypothesis HGv : forall (v : vec3R) i, (i < 3)%nat -> vc i (mvmul G v) = sg * vc i v.

Lemma m3get_scale_id e i j : (i < 3)%nat -> (j < 3)%nat -> m3get (mscale3 e mid3) i j = e * m3get mid3 i j.
Proof.
  intros Hi Hj. destruct i as [|[|[|i]]]; try lia; destruct j as [|[|[|j]]]; try lia; unfold m3get; lie_unfold; ring.
Qed.

Lemma diag_rotation_unique (Yf : R -> @mat3 R) : Yf 0 = mid3 ->
  (forall t i j, (i < 3)%nat -> (j < 3)%nat ->
      is_derive (fun t => m3get (Yf t) i j) t (m3get (mmul3 G (Yf t)) i j)) ->
  forall t, Yf t = mscale3 (exp (t * sg)) mid3.
Proof.
  intros H0 Hd t. apply m3_ext. intros i j Hi Hj. rewrite m3get_scale_id by assumption. rewrite <- H0.
  apply (scalar_ode_unique (fun t => m3get (Yf t) i j) sg). intros u. rewrite <- HG by assumption. now apply Hd.
Qed.
Lemma diag_rotation_solves t i j : (i < 3)%nat -> (j < 3)%nat ->
  is_derive (fun t => m3get (mscale3 (exp (t * sg)) mid3) i j) t (m3get (mmul3 G (mscale3 (exp (t * sg)) mid3)) i j).
Proof.
  intros Hi Hj. rewrite HG by assumption.
  destruct i as [|[|[|i]]]; try lia; destruct j as [|[|[|j]]]; try lia; unfold m3get; lie_unfold;
    (auto_derive; [exact I | ring]).
Qed.

Lemma vc_vadd i (u v : vec3R) : vc i (vadd u v) = vc i u + vc i v.
Proof. destruct u as [[u0 u1] u2], v as [[v0 v1] v2]. destruct i as [|[|i]]; unfold vc; lie_unfold; ring. Qed.
Lemma vc_vscale i k (v : vec3R) : vc i (vscale k v) = k * vc i v.
Proof. destruct v as [[v0 v1] v2]. destruct i as [|[|i]]; unfold vc; lie_unfold; ring. Qed.

Lemma diag_translation_unique (tau : vec3R) (yf : R -> vec3R) : yf 0 = vzero ->
  (forall t i, (i < 3)%nat -> is_derive (fun t => vc i (yf t)) t (vc i (vadd (mvmul G (yf t)) tau))) ->
  forall t, yf t = vscale (Ct sg t) tau.
Proof.
  intros H0 Hd t. apply v3_ext. intros i Hi. rewrite vc_vscale.
  apply (affine_ode_unique (fun t => vc i (yf t)) (fun t => Ct sg t * vc i tau) sg (vc i tau)).
  - intros u. rewrite <- HGv, <- vc_vadd by assumption. now apply Hd.
  - intros u. apply Ct_ode.
  - rewrite H0, Ct_0. destruct i as [|[|i]]; unfold vc; lie_unfold; ring.
Qed.
Lemma diag_translation_solves (tau : vec3R) t i : (i < 3)%nat ->
  is_derive (fun t => vc i (vscale (Ct sg t) tau)) t (vc i (vadd (mvmul G (vscale (Ct sg t) tau)) tau)).
Proof.
  intros Hi. rewrite vc_vadd, HGv, vc_vscale by assumption.
  apply (is_derive_ext (fun t => Ct sg t * vc i tau)); [intros u; now rewrite vc_vscale | apply Ct_ode].
Qed.
End Diagonal.

(* the two instances: [0]x acts as 0 I, [0]x + sigma I acts as sigma I *)
Lemma skew_zero_m (M : @mat3 R) i j : (i < 3)%nat -> (j < 3)%nat -> m3get (mmul3 (skew vzero) M) i j = 0 * m3get M i j.
Proof.
  intros Hi Hj. destruct M as [[[[p0 p1] p2] [[q0 q1] q2]] [[r0 r1] r2]].
  destruct i as [|[|[|i]]]; try lia; destruct j as [|[|[|j]]]; try lia; unfold m3get; lie_unfold; ring.
Qed.
Lemma skew_zero_v (v : vec3R) i : (i < 3)%nat -> vc i (mvmul (skew vzero) v) = 0 * vc i v.
Proof.
  intros Hi. destruct v as [[v0 v1] v2]. destruct i as [|[|[|i]]]; try lia; unfold vc; lie_unfold; ring.
Qed.
Lemma gen3_zero_m sg (M : @mat3 R) i j : (i < 3)%nat -> (j < 3)%nat -> m3get (mmul3 (gen3 vzero sg) M) i j = sg * m3get M i j.
Proof.
  intros Hi Hj. destruct M as [[[[p0 p1] p2] [[q0 q1] q2]] [[r0 r1] r2]].
  destruct i as [|[|[|i]]]; try lia; destruct j as [|[|[|j]]]; try lia; unfold gen3, m3get; lie_unfold; ring.
Qed.
Lemma gen3_zero_v sg (v : vec3R) i : (i < 3)%nat -> vc i (mvmul (gen3 vzero sg) v) = sg * vc i v.
Proof.
  intros Hi. destruct v as [[v0 v1] v2]. destruct i as [|[|[|i]]]; try lia; unfold gen3, vc; lie_unfold; ring.
Qed.
Lemma mscale3_one (A : @mat3 R) : mscale3 1 A = A.
Proof. lie_ring. Qed.
Lemma vscale_one (v : vec3R) : vscale 1 v = v.
Proof. destruct v as [[a b] c]. lie_unfold. split_pairs; ring. Qed.
Lemma exp_t0 t : exp (t * 0) = 1.
Proof. rewrite Rmult_0_r. apply exp_0. Qed.

(* ---- phi = 0: so3, rxso3 *)
Theorem so3_zero_exponential (E : @mat3 R) : is_mexp_so3 vzero E <-> E = mid3.
Proof.
  split.
  - intros (Yf & H0 & Hd & H1). subst E.
    rewrite (diag_rotation_unique 0 (skew vzero) skew_zero_m Yf H0 Hd 1), exp_t0. apply mscale3_one.
  - intros ->. exists (fun t => mscale3 (exp (t * 0)) mid3). split; [rewrite exp_t0; apply mscale3_one|]. split.
    + intros t i j Hi Hj. now apply (diag_rotation_solves 0 (skew vzero) skew_zero_m).
    + rewrite exp_t0. apply mscale3_one.
Qed.
Theorem rxso3_zero_exponential (sg : R) (E : @mat3 R) : is_mexp_rxso3 vzero sg E <-> E = mscale3 (exp sg) mid3.
Proof.
  split.
  - intros (Yf & H0 & Hd & H1). subst E.
    rewrite (diag_rotation_unique sg (gen3 vzero sg) (gen3_zero_m sg) Yf H0 Hd 1). now rewrite Rmult_1_l.
  - intros ->. exists (fun t => mscale3 (exp (t * sg)) mid3). split; [rewrite Rmult_0_l, exp_0; apply mscale3_one|]. split.
    + intros t i j Hi Hj. now apply (diag_rotation_solves sg (gen3 vzero sg) (gen3_zero_m sg)).
    + now rewrite Rmult_1_l.
Qed.

(* ---- phi = 0: se3 (p = tau), sim3 (p = Cex sigma tau) *)
Theorem se3_zero_exponential (tau : vec3R) (E : @mat3 R) (p : vec3R) :
  is_mexp_se3 tau vzero E p <-> E = mid3 /\ p = tau.
Proof.
  unfold is_mexp_se3. rewrite so3_zero_exponential. split.
  - intros [HE (yf & H0 & Hd & H1)]. split; [exact HE|]. subst p.
    rewrite (diag_translation_unique 0 (skew vzero) skew_zero_v tau yf H0 Hd 1), Ct_1, Cex_0. apply vscale_one.
  - intros [-> ->]. split; [reflexivity|]. exists (fun t => vscale (Ct 0 t) tau).
    split; [rewrite Ct_0; destruct tau as [[a b] c]; lie_unfold; split_pairs; ring|]. split.
    + intros t i Hi. now apply (diag_translation_solves 0 (skew vzero) skew_zero_v).
    + rewrite Ct_1, Cex_0. apply vscale_one.
Qed.
Theorem sim3_zero_rotation_exponential (tau : vec3R) (sg : R) (E : @mat3 R) (p : vec3R) :
  is_mexp_sim3 tau vzero sg E p <-> E = mscale3 (exp sg) mid3 /\ p = vscale (Cex sg) tau.
Proof.
  unfold is_mexp_sim3. rewrite rxso3_zero_exponential. split.
  - intros [HE (yf & H0 & Hd & H1)]. split; [exact HE|]. subst p.
    now rewrite (diag_translation_unique sg (gen3 vzero sg) (gen3_zero_v sg) tau yf H0 Hd 1), Ct_1.
  - intros [-> ->]. split; [reflexivity|]. exists (fun t => vscale (Ct sg t) tau).
    split; [rewrite Ct_0; destruct tau as [[a b] c]; lie_unfold; split_pairs; ring|]. split.
    + intros t i Hi. now apply (diag_translation_solves sg (gen3 vzero sg) (gen3_zero_v sg)).
    + now rewrite Ct_1.
Qed.

(* ---- sigma = 0: the rxso3 / sim3 problems ARE the so3 / se3 problems (any phi) *)
Lemma gen3_sigma0_m (x : vec3R) (M : @mat3 R) : mmul3 (gen3 x 0) M = mmul3 (skew x) M.
Proof. unfold gen3. lie_ring. Qed.
Lemma gen3_sigma0_v (x v : vec3R) : mvmul (gen3 x 0) v = mvmul (skew x) v.
Proof. unfold gen3. destruct v as [[v0 v1] v2]. lie_ring. Qed.
Theorem rxso3_sigma0_is_so3 (x : vec3R) (E : @mat3 R) : is_mexp_rxso3 x 0 E <-> is_mexp_so3 x E.
Proof.
  split; intros (Yf & H0 & Hd & H1); exists Yf; (split; [exact H0|]); (split; [|exact H1]); intros t i j Hi Hj.
  - rewrite <- gen3_sigma0_m. now apply Hd.
  - rewrite gen3_sigma0_m. now apply Hd.
Qed.
Theorem sim3_sigma0_is_se3 (tau phi : vec3R) (E : @mat3 R) (p : vec3R) :
  is_mexp_sim3 tau phi 0 E p <-> is_mexp_se3 tau phi E p.
Proof.
  unfold is_mexp_sim3, is_mexp_se3. rewrite rxso3_sigma0_is_so3.
  split; intros [HE (yf & H0 & Hd & H1)]; (split; [exact HE|]); exists yf; (split; [exact H0|]); (split; [|exact H1]);
    intros t i Hi.
  - rewrite <- gen3_sigma0_v. now apply Hd.
  - rewrite gen3_sigma0_v. now apply Hd.
Qed.

(* ---- total closed forms: the exponential of EVERY generator *)
Definition mexp_so3 (x : vec3R) : @mat3 R := if Req_EM_T (vnorm x) 0 then mid3 else rodrigues x.
(* the matrix multiplying tau in the translation column of exp [[ [phi]x + sigma I, tau],[0,0]] *)
Definition mexp_Vmat (phi : vec3R) (sg : R) : @mat3 R :=
  if Req_EM_T (vnorm phi) 0 then mscale3 (Cex sg) mid3
  else if Req_EM_T sg 0 then V1 phi else Ws1 phi sg.

Lemma mvmul_scale_id k (v : vec3R) : mvmul (mscale3 k mid3) v = vscale k v.
Proof. destruct v as [[a b] c]. lie_ring. Qed.

Theorem so3_exponential_total (x : vec3R) (E : @mat3 R) : is_mexp_so3 x E <-> E = mexp_so3 x.
Proof.
  unfold mexp_so3. destruct (Req_EM_T (vnorm x) 0) as [H|H].
  - rewrite (vnorm_zero x H). apply so3_zero_exponential.
  - now apply rodrigues_is_the_exponential.
Qed.
Theorem rxso3_exponential_total (x : vec3R) (sg : R) (E : @mat3 R) :
  is_mexp_rxso3 x sg E <-> E = mscale3 (exp sg) (mexp_so3 x).
Proof.
  unfold mexp_so3. destruct (Req_EM_T (vnorm x) 0) as [H|H].
  - rewrite (vnorm_zero x H). apply rxso3_zero_exponential.
  - now apply rxso3_exponential.
Qed.
Theorem se3_exponential_total (tau phi : vec3R) (E : @mat3 R) (p : vec3R) :
  is_mexp_se3 tau phi E p <-> E = mexp_so3 phi /\ p = mvmul (mexp_Vmat phi 0) tau.
Proof.
  unfold mexp_so3, mexp_Vmat. destruct (Req_EM_T (vnorm phi) 0) as [H|H].
  - rewrite (vnorm_zero phi H), Cex_0, mvmul_scale_id, vscale_one. apply se3_zero_exponential.
  - destruct (Req_EM_T 0 0) as [_|Hc]; [|contradiction]. now apply se3_exponential.
Qed.
Theorem sim3_exponential_total (tau phi : vec3R) (sg : R) (E : @mat3 R) (p : vec3R) :
  is_mexp_sim3 tau phi sg E p <-> E = mscale3 (exp sg) (mexp_so3 phi) /\ p = mvmul (mexp_Vmat phi sg) tau.
Proof.
  unfold mexp_so3, mexp_Vmat. destruct (Req_EM_T (vnorm phi) 0) as [H|H].
  - rewrite (vnorm_zero phi H), mvmul_scale_id. apply sim3_zero_rotation_exponential.
  - destruct (Req_EM_T sg 0) as [->|Hs].
    + rewrite sim3_sigma0_is_se3, exp_0, mscale3_one. now apply se3_exponential.
    + now apply sim3_exponential.
Qed.

(* existence and uniqueness for every generator *)
Corollary so3_exponential_exists_unique (x : vec3R) : exists! E, is_mexp_so3 x E.
Proof.
  exists (mexp_so3 x). split; [now apply so3_exponential_total | intros E HE; symmetry; now apply so3_exponential_total].
Qed.
Corollary rxso3_exponential_exists_unique (x : vec3R) (sg : R) : exists! E, is_mexp_rxso3 x sg E.
Proof.
  exists (mscale3 (exp sg) (mexp_so3 x)).
  split; [now apply rxso3_exponential_total | intros E HE; symmetry; now apply rxso3_exponential_total].
Qed.
Corollary se3_exponential_exists_unique (tau phi : vec3R) : exists! Ep, is_mexp_se3 tau phi (fst Ep) (snd Ep).
Proof.
  exists (mexp_so3 phi, mvmul (mexp_Vmat phi 0) tau). split.
  - apply se3_exponential_total. split; reflexivity.
  - intros [E p] H. apply se3_exponential_total in H. cbn [fst snd] in H. destruct H as [-> ->]. reflexivity.
Qed.
Corollary sim3_exponential_exists_unique (tau phi : vec3R) (sg : R) : exists! Ep, is_mexp_sim3 tau phi sg (fst Ep) (snd Ep).
Proof.
  exists (mscale3 (exp sg) (mexp_so3 phi), mvmul (mexp_Vmat phi sg) tau). split.
  - apply sim3_exponential_total. split; reflexivity.
  - intros [E p] H. apply sim3_exponential_total in H. cbn [fst snd] in H. destruct H as [-> ->]. reflexivity.
Qed.

(* ================= what the model returns at the degenerate points ================= *)
Lemma absF_Rabs (x : R) : absF x = Rabs x.
Proof.
  unfold absF. cbn [ltb NumR zero opp]. unfold Rltb.
  destruct (Rlt_dec x 0); [rewrite Rabs_left | rewrite Rabs_right]; lra.
Qed.
Lemma ltb_eps_zero (eps : R) : 0 <= eps -> ltb eps 0 = false.
Proof. intros H. cbn. apply Rltb_false. lra. Qed.

(* theta = 0 selects the Taylor branch, whose value at 0 is the identity quaternion *)
Lemma so3_exp_zero (eps : R) (x : vec3R) : 0 <= eps -> vnorm x = 0 -> so3_exp eps x = SO3_id.
Proof.
  intros He H. unfold so3_exp, so3_exp_coef. rewrite H, (ltb_eps_zero eps He), (vnorm_zero x H).
  cbn [fst snd]. lie_unfold. split_pairs; field.
Qed.
Lemma SO3_matrix_id : SO3_matrix (SO3_id : quatR) = mid3.
Proof. lie_unfold. split_pairs; ring. Qed.
Lemma so3_Jl_zero (eps : R) (x : vec3R) : 0 <= eps -> vnorm x = 0 -> so3_Jl eps x = mid3.
Proof.
  intros He H. unfold so3_Jl, so3_Jl_coef. rewrite H, (ltb_eps_zero eps He), (vnorm_zero x H).
  cbn [fst snd]. lie_unfold. split_pairs; field.
Qed.
(* rxso3_Ws at theta = 0: C I with the model's C (closed form for |sigma| > eps, 1 otherwise) *)
Definition Ws_C_model (eps sg : R) : R := if Rlt_dec eps (Rabs sg) then (exp sg - 1) / sg else 1.
Lemma rxso3_Ws_zero_rotation (eps : R) (x : vec3R) (sg : R) : 0 <= eps -> vnorm x = 0 ->
  rxso3_Ws eps (x, sg) = mscale3 (Ws_C_model eps sg) mid3.
Proof.
  intros He H. unfold rxso3_Ws, rxso3_Ws_coef, Ws_C_model. cbn [fst snd].
  rewrite H, (ltb_eps_zero eps He), (vnorm_zero x H), absF_Rabs. cbn [ltb NumR]. unfold Rltb.
  destruct (Rlt_dec eps (Rabs sg)); cbn [texp tsin tcos TransR]; lie_unfold; split_pairs; ring.
Qed.
Lemma Ws_C_model_exact (eps sg : R) : 0 <= eps -> sg = 0 \/ eps < Rabs sg -> Ws_C_model eps sg = Cex sg.
Proof.
  intros He [->|H]; unfold Ws_C_model.
  - rewrite Rabs_R0, Cex_0. destruct (Rlt_dec eps 0); [lra | reflexivity].
  - destruct (Rlt_dec eps (Rabs sg)); [|contradiction]. rewrite Cex_nz; [reflexivity|].
    intros ->. rewrite Rabs_R0 in H. lra.
Qed.
Lemma Ws_C_model_small (eps sg : R) : Rabs sg <= eps -> Ws_C_model eps sg = 1.
Proof. intros H. unfold Ws_C_model. destruct (Rlt_dec eps (Rabs sg)); [lra | reflexivity]. Qed.

(* matrices of the modelled Exp at phi = 0 *)
Lemma so3_exp_matrix_zero (eps : R) (x : vec3R) : 0 <= eps -> vnorm x = 0 -> SO3_matrix (so3_exp eps x) = mid3.
Proof. intros He H. rewrite so3_exp_zero by assumption. apply SO3_matrix_id. Qed.
Lemma se3_exp_matrix_zero (eps : R) (tau phi : vec3R) : 0 <= eps -> vnorm phi = 0 ->
  matrix4 SE3_act4 (se3_exp eps (tau, phi)) = block4 mid3 tau.
Proof.
  intros He H. rewrite SE3_matrix_blocks. unfold se3_exp. cbn [fst snd].
  rewrite so3_exp_matrix_zero, so3_Jl_zero by assumption. now rewrite mvmul_id'.
Qed.
Lemma rxso3_exp_matrix_zero (eps : R) (phi : vec3R) (sg : R) : 0 <= eps -> vnorm phi = 0 ->
  RxSO3_matrix (rxso3_exp eps (phi, sg)) = mscale3 (exp sg) mid3.
Proof.
  intros He H. rewrite RxSO3_matrix_blocks. unfold rxso3_exp. cbn [fst snd texp TransR].
  now rewrite so3_exp_matrix_zero.
Qed.
Lemma sim3_exp_matrix_zero (eps : R) (tau phi : vec3R) (sg : R) : 0 <= eps -> vnorm phi = 0 ->
  matrix4 Sim3_act4 (sim3_exp eps (tau, (phi, sg))) = block4 (mscale3 (exp sg) mid3) (vscale (Ws_C_model eps sg) tau).
Proof.
  intros He H. rewrite Sim3_matrix_blocks. unfold sim3_exp. cbn [fst snd].
  rewrite rxso3_Ws_zero_rotation, mvmul_scale_id by assumption. unfold rxso3_exp. cbn [fst snd texp TransR].
  now rewrite so3_exp_matrix_zero.
Qed.

(* ================= mixed regime |sigma| <= eps < theta: rxso3_Ws uses the se3 coefficients ================= *)
Lemma rxso3_Ws_small_sigma (eps : R) (phi : vec3R) (sg : R) : 0 <= eps -> eps < vnorm phi -> Rabs sg <= eps ->
  rxso3_Ws eps (phi, sg) = V1 phi.
Proof.
  intros He H Hs. unfold rxso3_Ws, rxso3_Ws_coef, V1, V_th. cbn [fst snd].
  replace (ltb eps (vnorm phi)) with true by (symmetry; cbn; now apply Rltb_true).
  replace (ltb eps (absF sg)) with false by (symmetry; rewrite absF_Rabs; cbn; now apply Rltb_false).
  set (t := vnorm phi) in *. assert (Ht : t <> 0) by lra. clearbody t.
  rewrite !Rmult_1_l. cbn [texp tsin tcos TransR]. destruct phi as [[a b] c]. lie_unfold. num_simpl.
  split_pairs; field; auto.
Qed.
Lemma sim3_exp_matrix_small_sigma (eps : R) (tau phi : vec3R) (sg : R) : 0 <= eps -> eps < vnorm phi -> Rabs sg <= eps ->
  matrix4 Sim3_act4 (sim3_exp eps (tau, (phi, sg))) = block4 (mscale3 (exp sg) (rodrigues phi)) (mvmul (V1 phi) tau).
Proof.
  intros He H Hs. rewrite Sim3_matrix_blocks. unfold sim3_exp. cbn [fst snd].
  rewrite rxso3_Ws_small_sigma by assumption. unfold rxso3_exp. cbn [fst snd texp TransR].
  now rewrite so3_matrix_rodrigues.
Qed.
