(* C16, exception safety of the modelled object: a call of a history that raises (forward = None: rank / shape /
   batch-size mismatch, malformed covariance ...) leaves the carried buffers as they were, so the calls that
   return give exactly what they give in the history from which the rejected calls are removed.  The statement is
   about the model's [run_calls]; that the implementation behaves the same way after a raise is what the tie's
   oracle `changed-by-a-call-that-raised` checks on every run. *)
From Coq Require Import Reals List.
Import ListNotations.
From PV Require Import Base.Num Model.LieGroup Model.IMU.
#[local] Remove Hints NumQ NumZ : typeclass_instances.

Section Raise.
Variable c : cfg R.

(* the calls of a history that return, in order *)
Fixpoint returning (st : list (istate R)) (cs : list (call R)) : list (call R) :=
  match cs with
  | [] => []
  | (dt, inc, jr, acc, rot) :: r =>
    match forward c st dt inc jr acc rot with
    | None => returning st r
    | Some (_, st') => (dt, inc, jr, acc, rot) :: returning st' r
    end
  end.

Definition somes {A} (l : list (option A)) : list A :=
  flat_map (fun o => match o with Some x => [x] | None => [] end) l.

Theorem raising_calls_transparent : forall cs st,
  run_calls c st (returning st cs) = map Some (somes (run_calls c st cs)).
Proof.
  induction cs as [|[[[[dt inc] jr] acc] rot] r IH]; intros st; [reflexivity|].
  cbn [returning run_calls].
  destruct (forward c st dt inc jr acc rot) as [[o st']|] eqn:E.
  - cbn [run_calls]. rewrite E. cbn [somes flat_map app map]. f_equal. apply IH.
  - cbn [somes flat_map app]. apply IH.
Qed.

(* in particular: a rejected call in front of a history changes nothing of what follows *)
Corollary rejected_call_in_front : forall dt inc jr acc rot cs st,
  forward c st dt inc jr acc rot = None ->
  run_calls c st ((dt, inc, jr, acc, rot) :: cs) = None :: run_calls c st cs.
Proof. intros dt inc jr acc rot cs st E. cbn [run_calls]. now rewrite E. Qed.
End Raise.
