(* C10, linear dependence (dimension argument) for list vectors over R:
     any m > n vectors of length n are linearly dependent (Gaussian elimination, induction on n);
     consequence: there are no n+1 vectors of length n that are pairwise orthogonal with respect to
     a form u, v |-> u . (B v) and have non-zero square u . (B u).
   Used by Proofs/Solver3.v for the finite termination of conjugate gradients. *)
From Coq Require Import Reals Lra List Arith Lia Bool ZArith Psatz.
Import ListNotations.
From PV Require Import Base.Num Base.RTac Model.Solver Proofs.Solver.
Local Open Scope R_scope.
#[local] Remove Hints NumQ NumZ : typeclass_instances.

(* ------------------------------------------------------------------------------------------ *)
(* bounded sums of reals *)
Fixpoint rsum (n : nat) (f : nat -> R) : R :=
  match n with O => 0 | S k => rsum k f + f k end.

Lemma rsum_ext n f g : (forall k, (k < n)%nat -> f k = g k) -> rsum n f = rsum n g.
Proof.
  induction n as [|n IH]; intros H; cbn; auto. rewrite IH by (intros; apply H; lia). rewrite H by lia. reflexivity.
Qed.
Lemma rsum_plus n f g : rsum n (fun k => f k + g k) = rsum n f + rsum n g.
Proof. induction n as [|n IH]; cbn; [lra|]. rewrite IH. lra. Qed.
Lemma rsum_minus n f g : rsum n (fun k => f k - g k) = rsum n f - rsum n g.
Proof. induction n as [|n IH]; cbn; [lra|]. rewrite IH. lra. Qed.
Lemma rsum_scal_l n a f : rsum n (fun k => a * f k) = a * rsum n f.
Proof. induction n as [|n IH]; cbn; [lra|]. rewrite IH. lra. Qed.
Lemma rsum_scal_r n a f : rsum n (fun k => f k * a) = rsum n f * a.
Proof. induction n as [|n IH]; cbn; [lra|]. rewrite IH. lra. Qed.
Lemma rsum_zero n f : (forall k, (k < n)%nat -> f k = 0) -> rsum n f = 0.
Proof.
  induction n as [|n IH]; intros H; cbn; [reflexivity|].
  rewrite IH by (intros; apply H; lia). rewrite H by lia. lra.
Qed.
Lemma rsum_swap n m (f : nat -> nat -> R) :
  rsum n (fun i => rsum m (fun j => f i j)) = rsum m (fun j => rsum n (fun i => f i j)).
Proof.
  induction n as [|n IH]; cbn.
  - symmetry. now apply rsum_zero.
  - rewrite IH. symmetry. apply (rsum_plus m (fun j => rsum n (fun i => f i j)) (fun j => f n j)).
Qed.
(* only one term is non-zero *)
Lemma rsum_single m f j0 : (j0 < m)%nat -> (forall i, (i < m)%nat -> i <> j0 -> f i = 0) -> rsum m f = f j0.
Proof.
  induction m as [|m IH]; intros Hj H; [lia|]. cbn.
  destruct (Nat.eq_dec j0 m) as [->|Hne].
  - rewrite rsum_zero; [lra|]. intros k Hk. apply H; lia.
  - rewrite IH by (try lia; intros; apply H; lia). rewrite (H m) by lia. lra.
Qed.

(* take term k out of a sum: the remaining indices are enumerated by [skip k] *)
Definition skip (k i : nat) : nat := if (i <? k)%nat then i else S i.
Lemma rsum_skip k : forall m f, (k < S m)%nat -> rsum (S m) f = f k + rsum m (fun i => f (skip k i)).
Proof.
  induction m as [|m IH]; intros f Hk.
  - assert (k = O) by lia. subst. cbn. lra.
  - change (rsum (S (S m)) f) with (rsum (S m) f + f (S m)).
    destruct (Nat.eq_dec k (S m)) as [->|Hne].
    + rewrite (rsum_ext (S m) (fun i => f (skip (S m) i)) f); [lra|].
      intros i Hi. unfold skip. replace (i <? S m)%nat with true; auto. symmetry. apply Nat.ltb_lt. lia.
    + rewrite IH by lia. change (rsum (S m) (fun i => f (skip k i))) with (rsum m (fun i => f (skip k i)) + f (skip k m)).
      assert (E : skip k m = S m). { unfold skip. replace (m <? k)%nat with false; auto. symmetry. apply Nat.ltb_ge. lia. }
      rewrite E. lra.
Qed.

(* ------------------------------------------------------------------------------------------ *)
(* more than n vectors with n components are linearly dependent; a i j = component j of vector i *)
Lemma bounded_search (P : nat -> Prop) (dec : forall i, {P i} + {~ P i}) :
  forall m, (forall i, (i < m)%nat -> ~ P i) \/ exists i, (i < m)%nat /\ P i.
Proof.
  induction m as [|m [IH|(i & Hi & HP)]].
  - left. intros; lia.
  - destruct (dec m) as [Hm|Hm].
    + right. exists m. split; auto.
    + left. intros i Hi. destruct (Nat.eq_dec i m) as [->|]; auto. apply IH. lia.
  - right. exists i. split; auto.
Qed.

Theorem lin_dep_fun : forall n m (a : nat -> nat -> R), (n < m)%nat ->
  exists c : nat -> R, (exists i, (i < m)%nat /\ c i <> 0) /\
    forall j, (j < n)%nat -> rsum m (fun i => c i * a i j) = 0.
Proof.
  induction n as [|n IH]; intros m a Hm.
  - exists (fun _ => 1). split; [exists O; split; [lia|lra]|]. intros j Hj. lia.
  - destruct (bounded_search (fun i => a i O <> 0)
               (fun i => match Req_EM_T (a i O) 0 with left e => right (fun H => H e) | right ne => left ne end) m)
      as [Hall|(k & Hk & Hpiv)].
    + (* every first component vanishes: a dependence of the tails *)
      destruct (IH m (fun i j => a i (S j)) ltac:(lia)) as (c & Hc & Hsum).
      exists c. split; auto. intros [|j] Hj.
      * apply rsum_zero. intros i Hi. destruct (Req_dec (a i O) 0) as [E|E]; [rewrite E; lra|].
        exfalso. exact (Hall i Hi E).
      * apply Hsum. lia.
    + (* vector k has a non-zero first component: eliminate it from the others *)
      destruct m as [|m]; [lia|].
      set (h := a k O) in *.
      destruct (IH m (fun i j => a (skip k i) (S j) - (a (skip k i) O / h) * a k (S j)) ltac:(lia))
        as (c' & (i0 & Hi0 & Hc0) & Hsum).
      set (s := rsum m (fun i => c' i * a (skip k i) O)).
      set (c := fun j : nat => if (j <? k)%nat then c' j else if (j =? k)%nat then - s / h else c' (pred j)).
      assert (Hcs : forall i, c (skip k i) = c' i).
      { intros i. unfold c, skip. destruct (i <? k)%nat eqn:E.
        - now rewrite E.
        - apply Nat.ltb_ge in E. replace (S i <? k)%nat with false by (symmetry; apply Nat.ltb_ge; lia).
          replace (S i =? k)%nat with false by (symmetry; apply Nat.eqb_neq; lia). reflexivity. }
      assert (Hck : c k = - s / h).
      { unfold c. rewrite Nat.ltb_irrefl, Nat.eqb_refl. reflexivity. }
      exists c. split.
      * exists (skip k i0). split; [unfold skip; destruct (i0 <? k)%nat; lia|]. now rewrite Hcs.
      * intros j Hj. rewrite (rsum_skip k m) by exact Hk. rewrite Hck.
        rewrite (rsum_ext m (fun i => c (skip k i) * a (skip k i) j) (fun i => c' i * a (skip k i) j))
          by (intros i _; now rewrite Hcs).
        destruct j as [|j].
        -- fold s. fold h. field. exact Hpiv.
        -- specialize (Hsum j ltac:(lia)). cbn beta in Hsum.
           rewrite (rsum_ext m _ (fun i => c' i * a (skip k i) (S j) - (c' i * a (skip k i) O) * (a k (S j) / h))) in Hsum
             by (intros i _; field; exact Hpiv).
           rewrite rsum_minus, rsum_scal_r in Hsum. fold s in Hsum.
           assert (E : rsum m (fun i => c' i * a (skip k i) (S j)) = s * (a k (S j) / h)) by lra.
           rewrite E. field. exact Hpiv.
Qed.

(* ------------------------------------------------------------------------------------------ *)
(* list vectors *)
Lemma dot_rsum : forall (u w : vecR), length u = length w ->
  dotR u w = rsum (length u) (fun j => nth j u 0 * nth j w 0).
Proof.
  induction u as [|a u IH]; intros [|b w] H; cbn [length] in *; try discriminate; [reflexivity|].
  rewrite (rsum_skip O (length u)) by lia. cbn [dot]. rewrite IH by lia. cbn [nth]. num_unfold.
  f_equal.
Qed.

(* no n+1 pairwise B-orthogonal vectors of length n with non-zero B-square *)
Theorem orth_family_bound (n : nat) (B : vecR -> vecR) (v : nat -> vecR) :
  (forall i, (i <= n)%nat -> length (v i) = n) ->
  (forall i, (i <= n)%nat -> length (B (v i)) = n) ->
  (forall i j, (i <= n)%nat -> (j <= n)%nat -> i <> j -> dotR (v i) (B (v j)) = 0) ->
  (forall i, (i <= n)%nat -> dotR (v i) (B (v i)) <> 0) -> False.
Proof.
  intros Hlen HlenB Horth Hsq.
  destruct (lin_dep_fun n (S n) (fun i j => nth j (v i) 0) ltac:(lia)) as (c & (i0 & Hi0 & Hc0) & Hsum).
  assert (Z : rsum (S n) (fun i => c i * dotR (v i) (B (v i0))) = 0).
  { rewrite (rsum_ext (S n) _ (fun i => rsum n (fun j => nth j (B (v i0)) 0 * (c i * nth j (v i) 0)))).
    - rewrite rsum_swap. apply rsum_zero. intros j Hj. cbn beta. rewrite rsum_scal_l. rewrite Hsum by exact Hj. lra.
    - intros i Hi. rewrite dot_rsum by (rewrite Hlen, HlenB; lia). rewrite Hlen by lia.
      rewrite <- rsum_scal_l. apply rsum_ext. intros j _. ring. }
  rewrite (rsum_single (S n) _ i0) in Z.
  - apply Rmult_integral in Z. destruct Z as [Z|Z]; [exact (Hc0 Z)|]. apply (Hsq i0); [lia|exact Z].
  - exact Hi0.
  - intros i Hi Hne. rewrite Horth by lia. lra.
Qed.
