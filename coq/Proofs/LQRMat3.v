(* C14, arbitrary state / input dimensions: Bellman induction over the horizon for the matrix
   transcription of lqr.py (Proofs/LQRMat2.v).  For every horizon, every time-varying A_t, B_t, c1_t,
   every symmetric Q_t that is positive semidefinite with a positive definite input block, every p_t,
   every nominal trajectory and every Cholesky routine satisfying its contract:
   the solve returns, the returned trajectory is feasible, the reported cost is the sum of the stage
   costs, no input sequence has a lower cost, and the minimiser is unique. *)
From Coq Require Import ZArith List Arith Lia Reals Lra.
Import ListNotations.
From PV Require Import Base.Num Base.Mat Model.Dynamics Proofs.LQRMat1 Proofs.LQRMat2.
#[local] Remove Hints NumQ NumZ : typeclass_instances.
Local Open Scope R_scope.

Definition is_ltvN (k : kind) : bool := match k with KLTV => true | _ => false end.
Lemma tickN_eq s t : tickN s t = (t + 1)%Z. Proof. reflexivity. Qed.
Lemma tresetN_eq s t : tresetN s t = 0%Z. Proof. reflexivity. Qed.
Lemma setrefN_eq s t v : setrefN s t v = if is_ltvN (nk s) then v else t.
Proof. unfold setrefN, step_time', step_time. destruct (nk s); reflexivity. Qed.

Section BellmanN.
Variables ns nc : nat.
Variable Lt : Type.
Variable chol : matR -> option Lt.
Variable csm : Lt -> matR -> matR.
Variable csv : Lt -> list R -> list R.
(* contract of cholesky + cholesky_solve: when the factorisation succeeds the solves solve *)
Hypothesis chol_sound : forall Quu L, wf nc nc Quu -> chol Quu = Some L ->
  (forall m M, wf nc m M -> wf nc m (csm L M) /\ mmul Quu (csm L M) = M) /\
  (forall b, length b = nc -> length (csv L b) = nc /\ mapply Quu (csv L b) = b).

Notation gains := (gainsN Lt chol csm csv).
Notation bwd := (bwdN Lt chol csm csv).
Notation solve := (lqrN_solve nc Lt chol csm csv).
Notation pd := (pdN ns nc).
Notation wfs := (wfsys ns nc).

(* ---------------------------------------------------------------- blocks of one step *)
Definition okH (Hxx Hxu Hux Huu : matR) : Prop :=
  wf ns ns Hxx /\ wf ns nc Hxu /\ wf nc ns Hux /\ wf nc nc Huu /\
  msym Hxx /\ msym Huu /\ Hux = mtr Hxu /\
  (forall dx du, length dx = ns -> length du = nc -> 0 <= jform Hxx Hxu Hux Huu dx du) /\ PD nc Huu.

Lemma okH_stage st : pd st -> okH (Nxx st) (Nxu st) (Nux st) (Nuu st).
Proof. intros ((W1 & W2 & W3 & W4 & _) & S1 & S2 & S3 & J & P). exact (conj W1 (conj W2 (conj W3 (conj W4 (conj S1 (conj S2 (conj S3 (conj J P)))))))). Qed.

Lemma msym_sandwich (a V : matR) n m : wf n m a -> wf n n V -> msym V -> msym (mmul (mmul (mtr a) V) a).
Proof.
  intros Wa WV SV. pose proof (msym_congr m n (mtr a) V ltac:(len) WV SV) as H.
  now rewrite (mtr_mtr n m) in H by assumption.
Qed.

Lemma okH_step st (a b V : matR) : pd st -> wf ns ns a -> wf ns nc b -> wf ns ns V -> msym V -> PSD ns V ->
  okH (madd (Nxx st) (mmul (mmul (mtr a) V) a)) (madd (Nxu st) (mmul (mmul (mtr a) V) b))
      (madd (Nux st) (mmul (mmul (mtr b) V) a)) (madd (Nuu st) (mmul (mmul (mtr b) V) b)).
Proof.
  intros ((W1 & W2 & W3 & W4 & _) & S1 & S2 & S3 & J & P) Wa Wb WV SV PV.
  unfold okH. split; [len|]. split; [len|]. split; [len|]. split; [len|].
  split; [apply (msym_madd ns); [assumption|len|assumption|apply (msym_sandwich a V ns ns); assumption]|].
  split; [apply (msym_madd nc); [assumption|len|assumption|apply (msym_sandwich b V ns nc); assumption]|].
  split.
  { rewrite (mtr_madd ns nc) by len. rewrite <- S3. f_equal.
    rewrite (mtr_mmul ns ns nc) by len. rewrite (mtr_mmul ns ns ns) by len.
    rewrite (mtr_mtr ns ns) by assumption. rewrite SV. apply (mmul_assoc nc ns ns ns); len. }
  split.
  { intros dx du Hd Hu. rewrite (jform_madd ns nc) by len. rewrite (jform_sandwich ns nc) by assumption.
    pose proof (J dx du Hd Hu) as J1. unfold bqN in J1. unfold jform at 1.
    pose proof (PV (vplus (mapply a dx) (mapply b du)) ltac:(len)) as P1. unfold qform in P1. unfold bil at 5. lra. }
  intros e He Hn. rewrite (qform_madd nc) by len.
  pose proof (P e He Hn) as P1.
  assert (P2 : 0 <= qform (mmul (mmul (mtr b) V) b) e).
  { change (0 <= bil (mmul (mmul (mtr b) V) b) e e). rewrite (bil_sandwich ns nc nc) by assumption.
    apply (PV (mapply b e)). len. }
  lra.
Qed.

Lemma gains_spec Hxx Hxu Hux Huu gx gu K k V v :
  okH Hxx Hxu Hux Huu -> length gu = nc -> gains Hxx Hxu Hux Huu gx gu = Some (K, k, V, v) ->
  exists X y, K = gK X /\ k = gk y /\ V = gV Hxx Hxu Hux Huu X /\ v = gv Hxu Huu gx gu X y /\
    wf nc ns X /\ length y = nc /\ mmul Huu X = Hux /\ mapply Huu y = gu.
Proof.
  intros (W1 & W2 & W3 & W4 & _) Lg H. unfold gainsN in H.
  destruct (chol Huu) as [L|] eqn:E; [|discriminate]. injection H as <- <- <- <-.
  destruct (chol_sound Huu L W4 E) as [C1 C2].
  destruct (C1 ns Hux W3) as [WX SX]. destruct (C2 gu Lg) as [Ly Sy].
  exists (csm L Hux), (csv L gu).
  exact (conj eq_refl (conj eq_refl (conj eq_refl (conj eq_refl (conj WX (conj Ly (conj SX Sy))))))).
Qed.

(* ---------------------------------------------------------------- unfolding lemmas *)
Definition tgainN (st : stageN) (xb ub : list R) :=
  gains (Nxx st) (Nxu st) (Nux st) (Nuu st) (fst (pbarN st xb ub)) (snd (pbarN st xb ub)).
Definition bgainN (st : stageN) (xb ub : list R) (a b V : matR) (v : list R) :=
  gains (madd (Nxx st) (mmul (mmul (mtr a) V) a)) (madd (Nxu st) (mmul (mmul (mtr a) V) b))
        (madd (Nux st) (mmul (mmul (mtr b) V) a)) (madd (Nuu st) (mmul (mmul (mtr b) V) b))
        (vplus (fst (pbarN st xb ub)) (mapply (mtr a) v)) (vplus (snd (pbarN st xb ub)) (mapply (mtr b) v)).
Lemma bwd_one s dt t tm st xb ub :
  bwd s dt t tm [(st, xb, ub)] =
  match tgainN st xb ub with Some (K, k, V, v) => Some ([(K, k)], V, v, tm) | None => None end.
Proof. reflexivity. Qed.
Lemma bwd_cons2 s dt t tm st xb ub it r :
  bwd s dt t tm ((st, xb, ub) :: it :: r) =
  match bwd s dt (t + 1)%Z tm (it :: r) with
  | None => None
  | Some (Ks, V, v, tm1) =>
      let tm2 := setrefN s tm1 (t * dt)%Z in
      match bgainN st xb ub (nA s tm2) (nB s tm2) V v with
      | Some (K, k, V', v') => Some ((K, k) :: Ks, V', v', tm2)
      | None => None
      end
  end.
Proof.
  remember (it :: r) as rest eqn:Er. cbn [bwdN]. subst rest. unfold pbarN, bgainN. lazy beta iota zeta.
  destruct (bwd s dt (t + 1)%Z tm (it :: r)) as [[[[Ks V] v] tm1]|]; reflexivity.
Qed.

Lemma fwd_cons s tm x st xb ub K k r c :
  fwdN s tm x ((st, xb, ub, (K, k)) :: r) c =
  let u := vplus (vplus (mapply K (vminus x xb)) k) ub in
  let x' := sN_next s tm x u in
  let res := fwdN s (tm + 1)%Z x' r (c + stage_costN st x u) in
  (x' :: fst (fst (fst res)), u :: snd (fst (fst res)), snd (fst res), snd res).
Proof.
  cbn [fwdN]. rewrite tickN_eq. cbv zeta.
  destruct (fwdN s (tm + 1)%Z _ r _) as [[[? ?] ?] ?]. reflexivity.
Qed.
Lemma fwd_shift s l : forall t x c,
  fwdN s t x l c =
  (fst (fst (fst (fwdN s t x l 0))), snd (fst (fst (fwdN s t x l 0))), c + snd (fst (fwdN s t x l 0)), snd (fwdN s t x l 0)).
Proof.
  induction l as [|[[[st xb] ub] [K k]] r IH]; intros t x c.
  - cbn. replace (c + 0) with c by ring. reflexivity.
  - rewrite !fwd_cons. cbv zeta. cbn [fst snd].
    rewrite (IH _ _ (c + _)), (IH _ _ (0 + _)). cbn [fst snd].
    match goal with |- (_, _, ?a, _) = (_, _, ?b, _) => replace a with b by ring end. reflexivity.
Qed.
Definition gainok (Kk : matR * list R) : Prop := wf nc ns (fst Kk) /\ length (snd Kk) = nc.
Definition lenc (u : list R) : Prop := length u = nc.
Definition stage_ofN (it : stageN * list R * list R * (matR * list R)) : stageN := fst (fst (fst it)).
Definition itemok (it : stageN * list R * list R) : Prop :=
  pd (fst (fst it)) /\ length (snd (fst it)) = ns /\ length (snd it) = nc.

Lemma fwd_spec s l : forall tm x c xs us cf tmf,
  Forall (fun it => gainok (snd it)) l ->
  fwdN s tm x l c = (xs, us, cf, tmf) ->
  xs = trajN s tm x us /\ length us = length l /\ Forall lenc us /\ tmf = (tm + Z.of_nat (length l))%Z.
Proof.
  induction l as [|[[[st xb] ub] [K k]] r IH]; intros tm x c xs us cf tmf Hl H.
  - cbn in H. injection H as <- <- <- <-. cbn. split; [reflexivity|]. split; [reflexivity|]. split; [constructor|lia].
  - rewrite fwd_cons in H. cbv zeta in H.
    destruct (fwdN s (tm + 1)%Z _ r _) as [[[xs' us'] cf'] tmf'] eqn:E. cbn [fst snd] in H.
    injection H as <- <- <- <-. pose proof (Forall_inv Hl) as [WK0 Lk0]. pose proof (Forall_inv_tail Hl) as Hl'.
    cbn [fst snd] in WK0, Lk0.
    apply IH in E; [|exact Hl']. destruct E as (E1 & E2 & E3 & E4).
    cbn [trajN length]. split; [now rewrite E1|]. split; [lia|]. split; [|lia].
    constructor; [|exact E3]. unfold lenc. len.
Qed.
Lemma fwd_cost_J s l : forall t x,
  snd (fst (fwdN s t x l 0)) = JcostN s t x (map stage_ofN l) (snd (fst (fst (fwdN s t x l 0)))).
Proof.
  induction l as [|[[[st xb] ub] [K k]] r IH]; intros t x; [reflexivity|].
  rewrite fwd_cons. cbv zeta. rewrite fwd_shift. cbn [fst snd map JcostN]. unfold stage_ofN at 1. cbn [fst].
  rewrite <- IH. ring.
Qed.

(* ---------------------------------------------------------------- nominal items *)
Definition stagesN (l : list (stageN * list R * list R)) : list stageN := map (fun it => fst (fst it)) l.
Definition hd_xN (l : list (stageN * list R * list R)) : list R := match l with (_, xb, _) :: _ => xb | [] => [] end.
Fixpoint chainN (s : sysN) (t : Z) (l : list (stageN * list R * list R)) : Prop :=
  match l with
  | (st, xb, ub) :: rest => (rest <> [] -> hd_xN rest = sN_next s t xb ub) /\ chainN s (t + 1)%Z rest
  | [] => True
  end.
Lemma nom_chain s prob : forall t x ub, chainN s t (nomN s t x prob ub).
Proof.
  induction prob as [|st pr IH]; intros t x ub; [exact I|]. destruct ub as [|u ur]; [exact I|].
  cbn [nomN chainN]. split; [|apply IH].
  destruct pr as [|st2 pr2]; [intros H; now elim H|]. destruct ur as [|u2 ur2]; [intros H; now elim H|].
  intros _. reflexivity.
Qed.
Lemma nom_stages s prob : forall t x ub, length ub = length prob -> stagesN (nomN s t x prob ub) = prob.
Proof.
  induction prob as [|st pr IH]; intros t x ub Hl; [reflexivity|]. destruct ub as [|u ur]; [discriminate|].
  cbn [nomN stagesN map fst]. f_equal. apply IH. now injection Hl.
Qed.
Lemma nom_len s prob : forall t x ub, length ub = length prob -> length (nomN s t x prob ub) = length prob.
Proof.
  induction prob as [|st pr IH]; intros t x ub Hl; [reflexivity|]. destruct ub as [|u ur]; [discriminate|].
  cbn [nomN length]. f_equal. apply IH. now injection Hl.
Qed.
Lemma nom_ok s prob : wfs s -> forall t x ub, Forall pd prob -> length x = ns -> Forall lenc ub ->
  Forall itemok (nomN s t x prob ub).
Proof.
  intros W. induction prob as [|st pr IH]; intros t x ub Hpd Hx Hub; [constructor|].
  destruct ub as [|u ur]; [constructor|].
  pose proof (Forall_inv Hpd) as Hp. pose proof (Forall_inv_tail Hpd) as Hpd'.
  pose proof (Forall_inv Hub) as Hu. pose proof (Forall_inv_tail Hub) as Hub'.
  cbn [nomN]. constructor; [exact (conj Hp (conj Hx Hu))|]. apply IH; [assumption| |assumption].
  apply (sN_next_len ns nc); assumption.
Qed.
Lemma stage_of_combine (l : list (stageN * list R * list R)) : forall Ks, length Ks = length l ->
  map stage_ofN (combine l Ks) = stagesN l.
Proof.
  induction l as [|it l IH]; intros Ks H; [reflexivity|]. destruct Ks as [|Kk Ks]; [discriminate|].
  cbn [combine map stagesN]. unfold stage_ofN at 1. cbn [fst]. f_equal. apply IH. now injection H.
Qed.

Definition fcostN (s : sysN) t x (l : list (stageN * list R * list R)) (Ks : list (matR * list R)) : R :=
  snd (fst (fwdN s t x (combine l Ks) 0)).
Definition finputsN (s : sysN) t x (l : list (stageN * list R * list R)) (Ks : list (matR * list R)) : list (list R) :=
  snd (fst (fst (fwdN s t x (combine l Ks) 0))).
Definition ValN (V : matR) (v : list R) (C : R) (hd x : list R) : R :=
  1 / 2 * bil V (vminus x hd) (vminus x hd) + vdot v (vminus x hd) + C.

(* ---------------------------------------------------------------- one step *)
(* the Q-function of an inner step in deviations: stage cost + value of the successor *)
Lemma Qf_inner s t st xb ub x u (V' : matR) (v' : list R) :
  wfs s -> pd st -> wf ns ns V' -> length v' = ns ->
  length xb = ns -> length ub = nc -> length x = ns -> length u = nc ->
  let w := vminus (sN_next s t x u) (sN_next s t xb ub) in
  let a := nA s t in let b := nB s t in
  stage_costN st x u + (1 / 2 * bil V' w w + vdot v' w) =
  stage_costN st xb ub +
  Phi (madd (Nxx st) (mmul (mmul (mtr a) V') a)) (madd (Nxu st) (mmul (mmul (mtr a) V') b))
      (madd (Nux st) (mmul (mmul (mtr b) V') a)) (madd (Nuu st) (mmul (mmul (mtr b) V') b))
      (vplus (fst (pbarN st xb ub)) (mapply (mtr a) v')) (vplus (snd (pbarN st xb ub)) (mapply (mtr b) v'))
      (vminus x xb) (vminus u ub).
Proof.
  intros W Hpd WV Lv Hxb Hub Hx Hu w a b. destruct (W t) as (Wa & Wb & _). fold a in Wa. fold b in Wb.
  rewrite (stage_cost_dev' ns nc st xb ub x u) by assumption.
  unfold w. rewrite (sN_next_diff ns nc) by assumption. fold a b.
  assert (Ld : length (vminus x xb) = ns) by len. assert (Le : length (vminus u ub) = nc) by len.
  destruct Hpd as ((W1 & W2 & W3 & W4 & L1 & L2) & _).
  unfold Phi. rewrite (jform_madd ns nc) by len. rewrite (jform_sandwich ns nc) by assumption.
  assert (P1 : length (fst (pbarN st xb ub)) = ns) by (unfold pbarN; cbn [fst]; len).
  assert (P2 : length (snd (pbarN st xb ub)) = nc) by (unfold pbarN; cbn [snd]; len).
  rewrite (vdot_vplus_l' ns), (vdot_vplus_l' nc) by len.
  pose proof (lin_sandwich ns nc a b v' (vminus x xb) (vminus u ub) Wa Wb Lv Ld Le) as E. lra.
Qed.

(* closed loop and lower bound for a block quadratic function *)
Lemma step_core Hxx Hxu Hux Huu gx gu X y xb ub x :
  okH Hxx Hxu Hux Huu -> length gx = ns -> length gu = nc ->
  wf nc ns X -> length y = nc -> mmul Huu X = Hux -> mapply Huu y = gu ->
  length xb = ns -> length ub = nc -> length x = ns ->
  let dx := vminus x xb in
  let ustar := vplus (vplus (mapply (gK X) dx) (gk y)) ub in
  length ustar = nc /\
  Phi Hxx Hxu Hux Huu gx gu dx (vminus ustar ub) =
    1 / 2 * bil (gV Hxx Hxu Hux Huu X) dx dx + vdot (gv Hxu Huu gx gu X y) dx + (vdot gu (gk y) + 1 / 2 * bil Huu (gk y) (gk y)) /\
  (forall u', length u' = nc ->
     Phi Hxx Hxu Hux Huu gx gu dx (vminus ustar ub) <= Phi Hxx Hxu Hux Huu gx gu dx (vminus u' ub)) /\
  (forall u', length u' = nc ->
     Phi Hxx Hxu Hux Huu gx gu dx (vminus u' ub) <= Phi Hxx Hxu Hux Huu gx gu dx (vminus ustar ub) -> u' = ustar).
Proof.
  intros (W1 & W2 & W3 & W4 & S1 & S2 & S3 & J & P) Lgx Lgu WX Ly SX Sy Hxb Hub Hx dx ustar.
  assert (Ld : length dx = ns) by (unfold dx; len).
  pose proof (WK ns nc X WX) as HK. pose proof (Lk nc y Ly) as HLk.
  assert (Ldel : length (vplus (mapply (gK X) dx) (gk y)) = nc) by len.
  assert (Lu : length ustar = nc) by (unfold ustar; len).
  assert (Eu : vminus ustar ub = vplus (mapply (gK X) dx) (gk y)).
  { unfold ustar. apply (vminus_vplus_cancel nc); assumption. }
  split; [exact Lu|]. rewrite Eu. split.
  { apply (Phi_closed ns nc); assumption. }
  assert (Hsq : forall u', length u' = nc ->
     Phi Hxx Hxu Hux Huu gx gu dx (vminus u' ub) =
     Phi Hxx Hxu Hux Huu gx gu dx (vplus (mapply (gK X) dx) (gk y)) +
     1 / 2 * bil Huu (vminus (vminus u' ub) (vplus (mapply (gK X) dx) (gk y)))
                     (vminus (vminus u' ub) (vplus (mapply (gK X) dx) (gk y)))).
  { intros u' Hu'.
    assert (Le : length (vminus (vminus u' ub) (vplus (mapply (gK X) dx) (gk y))) = nc) by len.
    rewrite <- (Phi_square ns nc Hxx Hxu Hux Huu gx gu W2 W3 W4 Lgu S2 S3 X y WX Ly SX Sy dx _ Ld Le).
    f_equal. symmetry. apply (vplus_vminus_cancel nc); len. }
  split.
  - intros u' Hu'. rewrite (Hsq u' Hu').
    pose proof (PD_PSD nc Huu W4 P (vminus (vminus u' ub) (vplus (mapply (gK X) dx) (gk y))) ltac:(len)) as H0.
    unfold qform in H0. unfold bil. lra.
  - intros u' Hu' Hle. rewrite (Hsq u' Hu') in Hle.
    set (e := vminus (vminus u' ub) (vplus (mapply (gK X) dx) (gk y))) in *.
    assert (Le : length e = nc) by (unfold e; len).
    assert (Hz : e = vzero nc).
    { apply vget_zero_all; [exact Le|]. intros Hn. pose proof (P e Le Hn) as Hp. unfold qform in Hp.
      unfold bil in Hle. clearbody e. lra. }
    apply (vminus_zero_eq nc) in Hz; [|len|len].
    unfold ustar. rewrite <- Hz. symmetry. rewrite (vplus_comm nc) by len. apply (vplus_vminus_cancel nc); assumption.
Qed.

Variable s : sysN.
Variable dt : Z.
Hypothesis Wsys : wfs s.
(* the coefficients the backward pass reads at step t (after set_refpoint(t*dt)) are those of the t-th call *)
Hypothesis G1 : forall t tm', ncoef s (setrefN s tm' (t * dt)) = ncoef s t.

(* ---------------------------------------------------------------- Bellman induction *)
Lemma bellmanN : forall l t tm Ks V v tm2,
  Forall itemok l -> chainN s t l -> bwd s dt t tm l = Some (Ks, V, v, tm2) ->
  (wf ns ns V /\ msym V /\ PSD ns V /\ length v = ns) /\ length Ks = length l /\ Forall gainok Ks /\
  exists C, forall x, length x = ns ->
    fcostN s t x l Ks = ValN V v C (hd_xN l) x /\
    (forall us', length us' = length l -> Forall lenc us' -> ValN V v C (hd_xN l) x <= JcostN s t x (stagesN l) us') /\
    (forall us', length us' = length l -> Forall lenc us' -> JcostN s t x (stagesN l) us' <= ValN V v C (hd_xN l) x ->
       us' = finputsN s t x l Ks).
Proof.
  induction l as [|[[st xb] ub] rest IH]; intros t tm Ks V v tm2 Hok Hch Hb; [discriminate|].
  pose proof (Forall_inv Hok) as [Hpd [Hxb Hub]]. pose proof (Forall_inv_tail Hok) as Hok'. cbn [fst snd] in Hpd, Hxb, Hub.
  assert (P1 : length (fst (pbarN st xb ub)) = ns).
  { destruct Hpd as ((W1 & W2 & W3 & W4 & L1 & L2) & _). unfold pbarN; cbn [fst]; len. }
  assert (P2 : length (snd (pbarN st xb ub)) = nc).
  { destruct Hpd as ((W1 & W2 & W3 & W4 & L1 & L2) & _). unfold pbarN; cbn [snd]; len. }
  destruct rest as [|it2 r2].
  - (* terminal step *)
    rewrite bwd_one in Hb. unfold tgainN in Hb.
    destruct (gains _ _ _ _ _ _) as [[[[K k] V0] v0]|] eqn:Eg; [|discriminate]. injection Hb as <- <- <- <-.
    pose proof (okH_stage st Hpd) as HH.
    destruct (gains_spec _ _ _ _ _ _ _ _ _ _ HH P2 Eg) as (X & y & -> & -> & -> & -> & WX & Ly & SX & Sy).
    destruct HH as (W1 & W2 & W3 & W4 & S1 & S2 & S3 & J & P).
    split.
    { split; [apply (WV ns nc); assumption|]. split; [apply (gV_sym ns nc); assumption|].
      split; [apply (gV_PSD ns nc); assumption|apply Lv; assumption]. }
    split; [reflexivity|]. split; [constructor; [split; [apply WK; assumption|apply Lk; assumption]|constructor]|].
    exists (stage_costN st xb ub + (vdot (snd (pbarN st xb ub)) (gk y) + 1 / 2 * bil (Nuu st) (gk y) (gk y))).
    intros x Hx. cbn [hd_xN].
    destruct (step_core _ _ _ _ (fst (pbarN st xb ub)) (snd (pbarN st xb ub)) X y xb ub x (okH_stage st Hpd) P1 P2 WX Ly SX Sy Hxb Hub Hx)
      as (Lu & Hc & Hmin & Huniq).
    cbv zeta in Lu, Hc, Hmin, Huniq.
    split; [|split].
    + unfold fcostN, ValN. cbn [combine]. rewrite fwd_cons. cbv zeta. cbn [fst snd fwdN].
      rewrite (stage_cost_dev' ns nc st xb ub x _ Hpd Hxb Hub Hx Lu), Hc. ring.
    + intros us' Hl Hlen. destruct us' as [|u' ur]; [discriminate|]. cbn [stagesN map fst JcostN].
      pose proof (Forall_inv Hlen) as Hu'.
      rewrite (stage_cost_dev' ns nc st xb ub x u' Hpd Hxb Hub Hx Hu'). unfold ValN.
      pose proof (Hmin u' Hu') as H1. rewrite Hc in H1. lra.
    + intros us' Hl Hlen. destruct us' as [|u' ur]; [discriminate|]. destruct ur; [|discriminate].
      cbn [stagesN map fst JcostN]. pose proof (Forall_inv Hlen) as Hu'.
      rewrite (stage_cost_dev' ns nc st xb ub x u' Hpd Hxb Hub Hx Hu'). unfold ValN. intros Hle.
      unfold finputsN. cbn [combine]. rewrite fwd_cons. cbv zeta. cbn [fst snd fwdN]. f_equal.
      apply Huniq; [exact Hu'|]. rewrite Hc. lra.
  - (* inner step *)
    rewrite bwd_cons2 in Hb.
    destruct (bwd s dt (t + 1)%Z tm (it2 :: r2)) as [[[[Ks' V'] v'] tm1]|] eqn:E; [|discriminate].
    cbv zeta in Hb. unfold nA, nB in Hb. rewrite G1 in Hb. fold (nA s t) in Hb. fold (nB s t) in Hb.
    unfold bgainN in Hb.
    destruct (gains _ _ _ _ _ _) as [[[[K k] V0] v0]|] eqn:Eg; [|discriminate]. injection Hb as <- <- <- <-.
    cbn [chainN] in Hch. destruct Hch as [Hhd Hch']. specialize (Hhd ltac:(discriminate)).
    destruct (IH (t + 1)%Z tm Ks' V' v' tm1 Hok' Hch' E) as [(WV' & SV' & PV' & Lv') [LK' [GK' [C' HC']]]].
    destruct (Wsys t) as (Wa & Wb & _).
    pose proof (okH_step st (nA s t) (nB s t) V' Hpd Wa Wb WV' SV' PV') as HH.
    set (gx := vplus (fst (pbarN st xb ub)) (mapply (mtr (nA s t)) v')) in *.
    set (gu := vplus (snd (pbarN st xb ub)) (mapply (mtr (nB s t)) v')) in *.
    assert (Lgx : length gx = ns) by (unfold gx; len). assert (Lgu : length gu = nc) by (unfold gu; len).
    destruct (gains_spec _ _ _ _ _ _ _ _ _ _ HH Lgu Eg) as (X & y & -> & -> & -> & -> & WX & Ly & SX & Sy).
    set (Hxx := madd (Nxx st) (mmul (mmul (mtr (nA s t)) V') (nA s t))) in *.
    set (Hxu := madd (Nxu st) (mmul (mmul (mtr (nA s t)) V') (nB s t))) in *.
    set (Hux := madd (Nux st) (mmul (mmul (mtr (nB s t)) V') (nA s t))) in *.
    set (Huu := madd (Nuu st) (mmul (mmul (mtr (nB s t)) V') (nB s t))) in *.
    pose proof HH as (W1 & W2 & W3 & W4 & S1 & S2 & S3 & J & P).
    split.
    { split; [apply (WV ns nc); assumption|]. split; [apply (gV_sym ns nc); assumption|].
      split; [apply (gV_PSD ns nc); assumption|apply Lv; assumption]. }
    split; [cbn [length]; now rewrite LK'|].
    split; [constructor; [split; [apply WK; assumption|apply Lk; assumption]|exact GK']|].
    set (xn := hd_xN (it2 :: r2)) in *.
    exists (stage_costN st xb ub + C' + (vdot gu (gk y) + 1 / 2 * bil Huu (gk y) (gk y))).
    intros x Hx. cbn [hd_xN].
    destruct (step_core Hxx Hxu Hux Huu gx gu X y xb ub x HH Lgx Lgu WX Ly SX Sy Hxb Hub Hx) as (Lu & Hc & Hmin & Huniq).
    cbv zeta in Lu, Hc, Hmin, Huniq.
    (* stage cost + value of the successor, for every input *)
    assert (HQ : forall u, length u = nc ->
      stage_costN st x u + ValN V' v' C' xn (sN_next s t x u) =
      stage_costN st xb ub + C' + Phi Hxx Hxu Hux Huu gx gu (vminus x xb) (vminus u ub)).
    { intros u Hu. unfold ValN. rewrite Hhd.
      pose proof (Qf_inner s t st xb ub x u V' v' Wsys Hpd WV' Lv' Hxb Hub Hx Hu) as HQ. cbv zeta in HQ.
      fold gx gu Hxx Hxu Hux Huu in HQ. lra. }
    split; [|split].
    + unfold fcostN.
      change (combine ((st, xb, ub) :: it2 :: r2) ((gK X, gk y) :: Ks')) with ((st, xb, ub, (gK X, gk y)) :: combine (it2 :: r2) Ks').
      rewrite fwd_cons. cbv zeta. rewrite fwd_shift. cbn [fst snd].
      set (us := vplus (vplus (mapply (gK X) (vminus x xb)) (gk y)) ub) in *.
      pose proof (proj1 (HC' (sN_next s t x us) ltac:(apply (sN_next_len ns nc); assumption))) as H3.
      unfold fcostN in H3. fold xn in H3. rewrite H3.
      pose proof (HQ us Lu) as H4. rewrite Hc in H4. unfold ValN at 2. lra.
    + intros us' Hl Hlen. destruct us' as [|u' ur]; [discriminate|]. cbn [length] in Hl. injection Hl as Hl.
      pose proof (Forall_inv Hlen) as Hu'. pose proof (Forall_inv_tail Hlen) as Hlen'.
      change (stagesN ((st, xb, ub) :: it2 :: r2)) with (st :: stagesN (it2 :: r2)). cbn [JcostN].
      pose proof (proj1 (proj2 (HC' (sN_next s t x u') ltac:(apply (sN_next_len ns nc); assumption))) ur Hl Hlen') as H2.
      fold xn in H2. pose proof (HQ u' Hu') as H4. pose proof (Hmin u' Hu') as H5. rewrite Hc in H5.
      unfold ValN at 1. lra.
    + intros us' Hl Hlen. destruct us' as [|u' ur]; [discriminate|]. cbn [length] in Hl. injection Hl as Hl.
      pose proof (Forall_inv Hlen) as Hu'. pose proof (Forall_inv_tail Hlen) as Hlen'.
      change (stagesN ((st, xb, ub) :: it2 :: r2)) with (st :: stagesN (it2 :: r2)). cbn [JcostN]. intros Hle.
      pose proof (HC' (sN_next s t x u') ltac:(apply (sN_next_len ns nc); assumption)) as (_ & H2 & H2u).
      fold xn in H2, H2u. specialize (H2 ur Hl Hlen').
      pose proof (HQ u' Hu') as H4. pose proof (Hmin u' Hu') as H5. rewrite Hc in H5.
      unfold ValN in Hle.
      assert (Eu : u' = vplus (vplus (mapply (gK X) (vminus x xb)) (gk y)) ub).
      { apply Huniq; [exact Hu'|]. rewrite Hc. lra. }
      unfold finputsN.
      change (combine ((st, xb, ub) :: it2 :: r2) ((gK X, gk y) :: Ks')) with ((st, xb, ub, (gK X, gk y)) :: combine (it2 :: r2) Ks').
      rewrite fwd_cons. cbv zeta. cbn [fst snd]. rewrite fwd_shift. cbn [fst snd]. rewrite <- Eu. f_equal.
      apply H2u; [exact Hl|exact Hlen'|].
      assert (H6 : Phi Hxx Hxu Hux Huu gx gu (vminus x xb) (vminus u' ub) =
                   1 / 2 * bil (gV Hxx Hxu Hux Huu X) (vminus x xb) (vminus x xb) + vdot (gv Hxu Huu gx gu X y) (vminus x xb) +
                   (vdot gu (gk y) + 1 / 2 * bil Huu (gk y) (gk y))).
      { rewrite Eu. exact Hc. }
      lra.
Qed.

(* ---------------------------------------------------------------- the backward pass returns *)
Hypothesis chol_complete : forall Quu, SPD nc Quu -> chol Quu <> None.

Lemma gains_some Hxx Hxu Hux Huu gx gu : okH Hxx Hxu Hux Huu ->
  exists K k V v, gains Hxx Hxu Hux Huu gx gu = Some (K, k, V, v).
Proof.
  intros (W1 & W2 & W3 & W4 & S1 & S2 & S3 & J & P). unfold gainsN.
  destruct (chol Huu) as [L|] eqn:E; [do 4 eexists; reflexivity|].
  exfalso. apply (chol_complete Huu); [exact (conj W4 (conj S2 P))|exact E].
Qed.

(* invariants of the value function and totality: ANY dt, any counter (no coherence needed) *)
Lemma bwd_returns : forall l t tm, l <> [] -> Forall itemok l ->
  exists Ks V v tm2, bwd s dt t tm l = Some (Ks, V, v, tm2) /\ wf ns ns V /\ msym V /\ PSD ns V /\ length v = ns.
Proof.
  induction l as [|[[st xb] ub] rest IH]; intros t tm Hne Hok; [congruence|].
  pose proof (Forall_inv Hok) as [Hpd [Hxb Hub]]. pose proof (Forall_inv_tail Hok) as Hok'. cbn [fst snd] in Hpd, Hxb, Hub.
  assert (P1 : length (fst (pbarN st xb ub)) = ns).
  { destruct Hpd as ((W1 & W2 & W3 & W4 & L1 & L2) & _). unfold pbarN; cbn [fst]; len. }
  assert (P2 : length (snd (pbarN st xb ub)) = nc).
  { destruct Hpd as ((W1 & W2 & W3 & W4 & L1 & L2) & _). unfold pbarN; cbn [snd]; len. }
  destruct rest as [|it2 r2].
  - rewrite bwd_one. unfold tgainN. pose proof (okH_stage st Hpd) as HH.
    destruct (gains_some _ _ _ _ (fst (pbarN st xb ub)) (snd (pbarN st xb ub)) HH) as (K & k & V & v & Eg). rewrite Eg.
    destruct (gains_spec _ _ _ _ _ _ _ _ _ _ HH P2 Eg) as (X & y & -> & -> & -> & -> & WX & Ly & SX & Sy).
    destruct HH as (W1 & W2 & W3 & W4 & S1 & S2 & S3 & J & P).
    do 4 eexists. split; [reflexivity|].
    split; [apply (WV ns nc); assumption|]. split; [apply (gV_sym ns nc); assumption|].
    split; [apply (gV_PSD ns nc); assumption|apply Lv; assumption].
  - rewrite bwd_cons2.
    destruct (IH (t + 1)%Z tm ltac:(discriminate) Hok') as (Ks' & V' & v' & tm1 & E & WV' & SV' & PV' & Lv'). rewrite E. cbv zeta.
    set (a := nA s (setrefN s tm1 (t * dt))). set (b := nB s (setrefN s tm1 (t * dt))).
    destruct (Wsys (setrefN s tm1 (t * dt))) as (Wa & Wb & _). fold a in Wa. fold b in Wb.
    pose proof (okH_step st a b V' Hpd Wa Wb WV' SV' PV') as HH. unfold bgainN.
    assert (Lgu : length (vplus (snd (pbarN st xb ub)) (mapply (mtr b) v')) = nc) by len.
    assert (Lgx : length (vplus (fst (pbarN st xb ub)) (mapply (mtr a) v')) = ns) by len.
    destruct (gains_some _ _ _ _ (vplus (fst (pbarN st xb ub)) (mapply (mtr a) v')) (vplus (snd (pbarN st xb ub)) (mapply (mtr b) v')) HH)
      as (K & k & V & v & Eg). rewrite Eg.
    destruct (gains_spec _ _ _ _ _ _ _ _ _ _ HH Lgu Eg) as (X & y & -> & -> & -> & -> & WX & Ly & SX & Sy).
    destruct HH as (W1 & W2 & W3 & W4 & S1 & S2 & S3 & J & P).
    do 4 eexists. split; [reflexivity|].
    split; [apply (WV ns nc); assumption|]. split; [apply (gV_sym ns nc); assumption|].
    split; [apply (gV_PSD ns nc); assumption|apply Lv; assumption].
Qed.
End BellmanN.

(* ====================================================================== the whole solve *)
Section SolveN.
Variables ns nc : nat.
Variable Lt : Type.
Variable chol : matR -> option Lt.
Variable csm : Lt -> matR -> matR.
Variable csv : Lt -> list R -> list R.
Hypothesis chol_sound : forall Quu L, wf nc nc Quu -> chol Quu = Some L ->
  (forall m M, wf nc m M -> wf nc m (csm L M) /\ mmul Quu (csm L M) = M) /\
  (forall b, length b = nc -> length (csv L b) = nc /\ mapply Quu (csv L b) = b).
Notation solve := (lqrN_solve nc Lt chol csm csv).
Notation pd := (pdN ns nc).
Notation wfs := (wfsys ns nc).
Notation lenc := (lenc nc).

(* an LTV object with dt = 1, or constant coefficients (LTI) with any dt *)
Definition coherentN (s : sysN) (dt : Z) : Prop :=
  (nk s = KLTV /\ dt = 1%Z) \/ (forall t, ncoef s t = ncoef s 0%Z).
Lemma coherentN_setref s dt : coherentN s dt -> forall t tm', ncoef s (setrefN s tm' (t * dt)) = ncoef s t.
Proof.
  intros [[Hk ->]|Hc] t tm'; rewrite setrefN_eq.
  - rewrite Hk. cbn. now rewrite Z.mul_1_r.
  - rewrite (Hc t). apply Hc.
Qed.
Definition nominalN_ok (prob : list stageN) (un : option (list (list R))) : Prop :=
  match un with None => True | Some u => length u = length prob /\ Forall lenc u end.
Lemma nominalN_props prob un : nominalN_ok prob un ->
  length (nominalN nc prob un) = length prob /\ Forall lenc (nominalN nc prob un).
Proof.
  destruct un as [u|]; cbn [nominalN_ok nominalN]; [auto|]. intros _. split; [apply repeat_length|].
  apply Forall_forall. intros z Hz. apply repeat_spec in Hz. subst z. apply length_vzero.
Qed.
Lemma gainok_combine {A} (l : list A) : forall Ks, Forall (gainok ns nc) Ks ->
  Forall (fun it : A * (matR * list R) => gainok ns nc (snd it)) (combine l Ks).
Proof.
  induction l as [|a l IH]; intros Ks H; [constructor|]. destruct Ks as [|Kk Ks]; [constructor|].
  cbn [combine]. constructor; [exact (Forall_inv H)|apply IH; exact (Forall_inv_tail H)].
Qed.

Theorem lqrN_optimal s dt prob x0 un tm xs us c tm' :
  wfs s -> coherentN s dt -> Forall pd prob -> length x0 = ns -> nominalN_ok prob un ->
  solve s dt prob x0 un tm = Some (xs, us, c, tm') ->
  length us = length prob /\ Forall lenc us /\ xs = x0 :: trajN s 0 x0 us /\ tm' = Z.of_nat (length prob) /\
  c = JcostN s 0 x0 prob us /\
  (forall us', length us' = length prob -> Forall lenc us' -> c <= JcostN s 0 x0 prob us') /\
  (forall us', length us' = length prob -> Forall lenc us' -> JcostN s 0 x0 prob us' <= c -> us' = us).
Proof.
  intros W Hco Hpd Hx Hn H. destruct (nominalN_props prob un Hn) as [El Hub].
  unfold lqrN_solve in H. rewrite El, Nat.eqb_refl in H. cbn [negb] in H. rewrite !tresetN_eq in H.
  destruct prob as [|st0 pr].
  - injection H as <- <- <- <-. cbn. split; [reflexivity|]. split; [constructor|]. split; [reflexivity|].
    split; [reflexivity|]. split; [reflexivity|]. split; [intros; lra|]. intros us' Hl _ _. destruct us'; [reflexivity|discriminate].
  - set (prob := st0 :: pr) in *. lazy beta iota in H.
    set (items := nomN s 0 x0 prob (nominalN nc prob un)) in *.
    assert (Eli : length items = length prob) by (apply nom_len; exact El).
    assert (Hst : stagesN items = prob) by (apply nom_stages; exact El).
    assert (Hok : Forall (itemok ns nc) items) by (apply (nom_ok ns nc); assumption).
    destruct (bwdN Lt chol csm csv s dt 0%Z _ items) as [[[[Ks V] v] tm2]|] eqn:Eb; [|discriminate].
    rewrite tresetN_eq in H.
    destruct (bellmanN ns nc Lt chol csm csv chol_sound s dt W (coherentN_setref s dt Hco) items 0%Z _ Ks V v tm2
                Hok (nom_chain s prob 0%Z x0 _) Eb) as (_ & LK & GK & C & HC).
    destruct (fwdN s 0%Z x0 (combine items Ks) 0) as [[[xs1 us1] c1] tm3] eqn:Ef.
    injection H as <- <- <- <-.
    destruct (fwd_spec ns nc s _ _ _ _ _ _ _ _ (gainok_combine items Ks GK) Ef) as (F1 & F2 & F3 & F4).
    rewrite combine_length, LK, Nat.min_id, Eli in F2, F4.
    pose proof (fwd_cost_J s (combine items Ks) 0%Z x0) as HJ. rewrite Ef in HJ. cbn [fst snd] in HJ.
    rewrite stage_of_combine, Hst in HJ by exact LK.
    destruct (HC x0 Hx) as (HC1 & HC2 & HC3).
    assert (Hhd : hd_xN items = x0).
    { unfold items. revert El. unfold prob. destruct (nominalN nc (st0 :: pr) un); [discriminate|reflexivity]. }
    unfold fcostN in HC1. unfold finputsN in HC3. rewrite Ef in HC1, HC3. cbn [fst snd] in HC1, HC3.
    rewrite Hst, Eli in HC2, HC3. rewrite <- HC1 in HC2, HC3.
    split; [exact F2|]. split; [exact F3|]. split; [now rewrite F1|]. split; [rewrite F4; lia|].
    split; [exact HJ|]. split; [exact HC2|exact HC3].
Qed.

(* with the completeness half of the Cholesky contract the solve returns - every system, every dt *)
Hypothesis chol_complete : forall Quu, SPD nc Quu -> chol Quu <> None.
Theorem lqrN_returns s dt prob x0 un tm :
  wfs s -> Forall pd prob -> length x0 = ns -> nominalN_ok prob un ->
  exists xs us c tm', solve s dt prob x0 un tm = Some (xs, us, c, tm').
Proof.
  intros W Hpd Hx Hn. destruct (nominalN_props prob un Hn) as [El Hub].
  unfold lqrN_solve. rewrite El, Nat.eqb_refl. cbn [negb]. rewrite !tresetN_eq.
  destruct prob as [|st0 pr]; [do 4 eexists; reflexivity|].
  set (prob := st0 :: pr) in *. lazy beta iota.
  set (items := nomN s 0 x0 prob (nominalN nc prob un)).
  assert (Hok : Forall (itemok ns nc) items) by (apply (nom_ok ns nc); assumption).
  assert (Hne : items <> []).
  { intros E. assert (L : length items = length prob) by (apply nom_len; exact El). rewrite E in L. discriminate. }
  destruct (bwd_returns ns nc Lt chol csm csv chol_sound s dt W chol_complete items 0%Z (Z.of_nat (length prob - 1)) Hne Hok)
    as (Ks & V & v & tm2 & E & _). rewrite E.
  destruct (fwdN s (tresetN s tm2) x0 (combine items Ks) 0) as [[[xs us] c] tm3]. do 4 eexists. reflexivity.
Qed.

(* hence: independent of the nominal trajectory and of the counter found (earlier calls) *)
Theorem lqrN_nominal_independent s dt prob x0 un un' tm tm0 :
  wfs s -> coherentN s dt -> Forall pd prob -> length x0 = ns -> nominalN_ok prob un -> nominalN_ok prob un' ->
  solve s dt prob x0 un tm = solve s dt prob x0 un' tm0.
Proof.
  intros W Hco Hpd Hx Hn Hn'.
  destruct (lqrN_returns s dt prob x0 un tm W Hpd Hx Hn) as (xs & us & c & t1 & E1).
  destruct (lqrN_returns s dt prob x0 un' tm0 W Hpd Hx Hn') as (xs2 & us2 & c2 & t2 & E2).
  rewrite E1, E2.
  destruct (lqrN_optimal _ _ _ _ _ _ _ _ _ _ W Hco Hpd Hx Hn E1) as (A1 & A1' & A2 & A6 & A3 & A4 & A5).
  destruct (lqrN_optimal _ _ _ _ _ _ _ _ _ _ W Hco Hpd Hx Hn' E2) as (B1 & B1' & B2 & B6 & B3 & B4 & B5).
  assert (Eu : us2 = us).
  { apply A5; [exact B1|exact B1'|]. rewrite <- B3. rewrite A3. apply B4; assumption. }
  rewrite Eu in *. rewrite A2, B2, A3, B3, A6, B6. reflexivity.
Qed.
End SolveN.

