(* C06, second file about Model/Patch.v:
     1. retain_ltype: the call trace of EVERY body -- each call through a patched attribute inside the context
        goes through exactly (layers before entry + nesting depth) wrappers, and after a nested context has
        been left (normally or by an exception) through the wrappers of the enclosing context again;
     2. the write check is monotone under replacing a view by a copy (non-contiguous inputs, dtype
        conversions, expansions: purity proved for the most-aliasing transcription holds for all variants);
     3. transcriptions of the guarded geometry functions (homo2cart, point2pixel). *)
From Coq Require Import List Arith Bool PeanoNat Lia.
Import ListNotations.
From PV Require Import Model.Patch Proofs.Patch.

(* ======================= 1. wrapper layers seen by every call ======================= *)
(* the trace predicted from the body alone: [L x] = wrapper layers around site x at this point *)
Fixpoint trace_at (b : body) (L : site -> nat) : list (site * nat) * bool :=
  match b with
  | BRet => ([], false)
  | BRaise => ([], true)
  | BCall x k => let '(t, r) := trace_at k L in ((x, L x) :: t, r)
  | BNest inner k =>
      let '(t, r) := trace_at inner (fun x => S (L x)) in
      if r then (t, true) else let '(t', r') := trace_at k L in (t ++ t', r')
  end.

Definition depth_of (s : pstate) (x : site) : nat := layers (site_val s x).

Lemma trace_at_ext b : forall L L', (forall x, L x = L' x) -> trace_at b L = trace_at b L'.
Proof.
  induction b as [| |x k IH|inner IHi k IHk]; intros L L' E; simpl; auto.
  - rewrite (IH L L' E), (E x). reflexivity.
  - rewrite (IHi (fun x => S (L x)) (fun x => S (L' x))) by (intros; now rewrite E).
    now rewrite (IHk L L' E).
Qed.

Lemma enter_layers s x : depth_of (fst (enter s)) x = S (depth_of s x).
Proof. destruct x; reflexivity. Qed.

Lemma leave_site_val s s2 x : site_val (leave s2 (snd (enter s))) x = site_val s x.
Proof. unfold site_val at 1. now rewrite leave_site. Qed.

Theorem run_trace : forall b s s' r t, run b s = (s', r, t) -> sites_defined s ->
  trace_at b (depth_of s) = (t, r).
Proof.
  induction b as [| |x k IH|inner IHi k IHk]; intros s s' r t R W.
  - simpl in R. inversion R; subst. reflexivity.
  - simpl in R. inversion R; subst. reflexivity.
  - simpl in R. destruct (run k s) as [[s1 r1] t1] eqn:E. inversion R; subst.
    simpl. now rewrite (IH _ _ _ _ E W).
  - rewrite run_nest in R. destruct (enter s) as [s1 saved] eqn:En.
    assert (Es1 : s1 = fst (enter s)) by (rewrite En; reflexivity).
    assert (Esv : saved = snd (enter s)) by (rewrite En; reflexivity).
    destruct (run inner s1) as [[s2 r2] t2] eqn:Ei.
    assert (W1 : sites_defined s1) by (rewrite Es1; apply enter_sites_defined).
    pose proof (IHi _ _ _ _ Ei W1) as Ti.
    rewrite (trace_at_ext inner (depth_of s1) (fun x => S (depth_of s x))) in Ti
      by (intros x; rewrite Es1; apply enter_layers).
    simpl. rewrite Ti. cbv zeta in R. destruct r2.
    + inversion R; subst. reflexivity.
    + destruct (run k (leave s2 saved)) as [[s4 r4] t4] eqn:Ek. inversion R; subst.
      assert (W3 : sites_defined (leave s2 (snd (enter s)))) by (intros x; rewrite leave_site; discriminate).
      pose proof (IHk _ _ _ _ Ek W3) as Tk.
      rewrite (trace_at_ext k _ (depth_of s)) in Tk by (intros x; unfold depth_of; now rewrite leave_site_val).
      now rewrite Tk.
Qed.

(* the context manager itself: inside, one more layer than before entry, plus one per enclosing nested context *)
Theorem retain_ltype_trace b s : sites_defined s ->
  let '(_, raised, t) := with_retain_ltype b s in
  (t, raised) = trace_at b (fun x => S (layers (site_val s x))).
Proof.
  intros W. destruct (with_retain_ltype b s) as [[s' r] t] eqn:E.
  pose proof (run_trace _ _ _ _ _ E W) as T. simpl in T.
  change (fun x => S (depth_of s x)) with (fun x => S (layers (site_val s x))) in T.
  destruct (trace_at b (fun x => S (layers (site_val s x)))) as [t0 r0].
  destruct r0; inversion T; subst; [reflexivity|now rewrite app_nil_r].
Qed.

Lemma normal_defined : sites_defined normal.
Proof. intros []; discriminate. Qed.

(* in a fresh process nothing is wrapped *)
Lemma pristine_depth x : layers (site_val pristine x) = 0 /\ layers (site_val normal x) = 0.
Proof. destruct x; split; reflexivity. Qed.

(* ======================= 2. views replaced by copies ======================= *)
Section Refine.
Variable D : Type.
Variable d0 : D.

(* [refines p' p]: p' is p with some views (Alias) replaced by copies (Fresh); kernels, sources and
   conditions are free (the check does not look at them) *)
Inductive refines : prog D -> prog D -> Prop :=
| R_ret vs vs' : refines (Ret vs') (Ret vs)
| R_alias d s s' k' k : refines k' k -> (s' = s) -> refines (Alias d s' k') (Alias d s k)
| R_copy d s f srcs k' k : refines k' k -> refines (Fresh d f srcs k') (Alias d s k)
| R_fresh d f f' srcs srcs' k' k : refines k' k -> refines (Fresh d f' srcs' k') (Fresh d f srcs k)
| R_inplace d f f' srcs srcs' k' k : refines k' k -> refines (Inplace d f' srcs' k') (Inplace d f srcs k)
| R_if c c' srcs srcs' kt' kt ke' ke : refines kt' kt -> refines ke' ke ->
    refines (If c' srcs' kt' ke') (If c srcs kt ke).

Definition taint_le (T' T : nat -> option nat) : Prop := forall v, T' v = None \/ T' v = T v.

Lemma mut_refines : forall p' p, refines p' p -> forall T' T, taint_le T' T -> incl (mut D p' T') (mut D p T).
Proof.
  induction 1; intros T' T Le; simpl.
  - apply incl_refl.
  - subst s'. apply IHrefines. intros v. unfold upd. destruct (v =? d); auto.
  - apply IHrefines. intros v. unfold upd. destruct (v =? d); auto.
  - apply IHrefines. intros v. unfold upd. destruct (v =? d); auto.
  - specialize (IHrefines T' T Le). destruct (Le d) as [E|E]; rewrite E.
    + destruct (T d); [apply incl_tl|]; exact IHrefines.
    + destruct (T d); [|exact IHrefines]. intros a [<-|I]; [left; reflexivity|right; now apply IHrefines].
  - apply incl_app; [apply incl_appl|apply incl_appr]; auto.
Qed.

Lemma taint_le_refl T : taint_le T T. Proof. intros v. now right. Qed.

(* purity of the most-aliasing transcription carries over to every variant with more copies *)
Theorem pure_under_copies (p' p : prog D) (args : list D) :
  refines p' p -> may_mutate D (length args) p = [] -> post_args D d0 p' args = args.
Proof.
  intros R H. apply pure_if_check_empty. unfold may_mutate in *.
  pose proof (mut_refines _ _ R _ _ (taint_le_refl (taint0 (length args)))) as I. rewrite H in I.
  destruct (mut D p' (taint0 (length args))) as [|a l]; [reflexivity|]. exfalso. apply (I a). now left.
Qed.

Lemma refines_refl p : refines p p.
Proof. induction p; constructor; auto. Qed.

(* ======================= 3. guarded geometry functions ======================= *)
Variable K : nat -> list D -> D.

(* homo2cart(coordinates), variable [v] holding the argument, temporaries [t .. t+6]:
     denum = coordinates[..., -1:].abs().clamp_(min=tiny)     the guard writes into the result of abs()
     denum = pm(coordinates[..., -1:]) * denum
     return coordinates[..., :-1] / denum
   K 0 abs, K 1 clamp, K 2 pm, K 3 product, K 4 quotient *)
Definition p_homo2cart_on (v t : nat) (k : nat -> prog D) : prog D :=
  Alias t v (Fresh (t + 1) (K 0) [t] (Inplace (t + 1) (K 1) [t + 1]
  (Alias (t + 2) v (Fresh (t + 3) (K 2) [t + 2] (Fresh (t + 4) (K 3) [t + 3; t + 1]
  (Alias (t + 5) v (Fresh (t + 6) (K 4) [t + 5; t + 4] (k (t + 6))))))))).
Definition p_homo2cart : prog D := p_homo2cart_on 0 1 (fun r => Ret [r]).
(* the same with the guard applied to the view itself (no abs() copy in between): caller data overwritten *)
Definition p_homo2cart_guard_on_view : prog D :=
  Alias 1 0 (Alias 2 1 (Inplace 2 (K 1) [2]
  (Alias 3 0 (Fresh 4 (K 2) [3] (Fresh 5 (K 3) [4; 2] (Alias 6 0 (Fresh 7 (K 4) [6; 5] (Ret [7])))))))).
(* point2pixel(points, intrinsics, extrinsics=None): arguments 0 points, 1 intrinsics, 2 extrinsics.
     points = extrinsics.unsqueeze(-2) @ points   (only with extrinsics);  homo2cart(points @ intrinsics.mT)
   K 5 Act, K 6 matmul *)
Definition p_point2pixel (has_ext : bool) : prog D :=
  (if has_ext then Alias 3 2 (Fresh 4 (K 5) [3; 0] (Alias 5 1 (Fresh 6 (K 6) [4; 5] (p_homo2cart_on 6 7 (fun r => Ret [r])))))
   else Alias 4 0 (Alias 5 1 (Fresh 6 (K 6) [4; 5] (p_homo2cart_on 6 7 (fun r => Ret [r]))))).

Lemma homo2cart_check : may_mutate D 1 p_homo2cart = [].
Proof. reflexivity. Qed.
Lemma homo2cart_guard_on_view_reported : may_mutate D 1 p_homo2cart_guard_on_view = [0].
Proof. reflexivity. Qed.
Lemma point2pixel_check e : may_mutate D 3 (p_point2pixel e) = [].
Proof. destruct e; reflexivity. Qed.

Theorem geometry_pure :
  (forall X, post_args D d0 p_homo2cart [X] = [X]) /\
  (forall e P Kc Ex, post_args D d0 (p_point2pixel e) [P; Kc; Ex] = [P; Kc; Ex]).
Proof.
  split; intros; apply pure_if_check_empty; simpl length; [apply homo2cart_check|apply point2pixel_check].
Qed.
End Refine.

(* the modelled binary operation with copies refines the one with views only *)
Lemma binop_refines D K cx cy : refines D (p_binop D K cx cy) (p_binop D K false false).
Proof. destruct cx, cy; repeat (constructor; try reflexivity). Qed.
Lemma retr_refines D K cx cy : refines D (p_retr D K cx cy) (p_retr D K false false).
Proof. destruct cx, cy; repeat (constructor; try reflexivity). Qed.

(* the guard on the view does overwrite caller data: w = 0 is replaced by tiny (here: 1) *)
Open Scope nat_scope.
Example homo2cart_guard_on_view_witness :
  post_args (list nat) [] (p_homo2cart_guard_on_view (list nat)
     (fun i l => match i with 1 => map (fun w => Nat.max w 1) (nth 0 l []) | _ => nth 0 l [] end)) [[0]] = [[1]].
Proof. reflexivity. Qed.

(* ======================= 4. bodies that catch exceptions ======================= *)
(* Model/Patch.v lets an exception propagate to the outermost context.  Here the body language is extended with
   `try: b  except: pass` followed by k, so that an exception raised inside a (nested) context can be caught by the
   user's function at any enclosing level and execution goes on; retain_ltype itself is unchanged (enter / leave of
   the model).  [embed] shows the extension agrees with the model on its bodies. *)
Inductive xbody :=
| XRet | XRaise
| XCall (x : site) (k : xbody)
| XNest (inner k : xbody)
| XTry (b k : xbody).

Fixpoint xrun (b : xbody) (s : pstate) : pstate * bool * list (site * nat) :=
  match b with
  | XRet => (s, false, [])
  | XRaise => (s, true, [])
  | XCall x k => let '(s', r, t) := xrun k s in (s', r, (x, layers (site_val s x)) :: t)
  | XNest inner k =>
      let '(s1, saved) := enter s in
      let '(s2, r, t) := xrun inner s1 in
      let s3 := leave s2 saved in
      if r then (s3, true, t)
      else let '(s4, r', t') := xrun k s3 in (s4, r', t ++ t')
  | XTry b k =>
      let '(s1, _, t) := xrun b s in                (* whatever b raised is swallowed *)
      let '(s2, r', t') := xrun k s1 in (s2, r', t ++ t')
  end.

Fixpoint embed (b : body) : xbody :=
  match b with
  | BRet => XRet | BRaise => XRaise | BCall x k => XCall x (embed k) | BNest i k => XNest (embed i) (embed k)
  end.
Lemma xrun_nest inner k s : xrun (XNest inner k) s =
  let '(s1, saved) := enter s in
  let '(s2, r, t) := xrun inner s1 in
  let s3 := leave s2 saved in
  if r then (s3, true, t) else let '(s4, r', t') := xrun k s3 in (s4, r', t ++ t').
Proof. reflexivity. Qed.
Lemma xrun_embed : forall b s, xrun (embed b) s = run b s.
Proof.
  induction b as [| |x k IH|inner IHi k IHk]; intros s; try reflexivity.
  - simpl. now rewrite IH.
  - change (embed (BNest inner k)) with (XNest (embed inner) (embed k)). rewrite xrun_nest, run_nest.
    destruct (enter s) as [s1 saved]. rewrite IHi. destruct (run inner s1) as [[s2 r] t].
    destruct r; [reflexivity|]. cbv zeta. now rewrite IHk.
Qed.

Fixpoint xtrace_at (b : xbody) (L : site -> nat) : list (site * nat) * bool :=
  match b with
  | XRet => ([], false)
  | XRaise => ([], true)
  | XCall x k => let '(t, r) := xtrace_at k L in ((x, L x) :: t, r)
  | XNest inner k =>
      let '(t, r) := xtrace_at inner (fun x => S (L x)) in
      if r then (t, true) else let '(t', r') := xtrace_at k L in (t ++ t', r')
  | XTry b k => let '(t, _) := xtrace_at b L in let '(t', r') := xtrace_at k L in (t ++ t', r')
  end.

Lemma xtrace_at_ext b : forall L L', (forall x, L x = L' x) -> xtrace_at b L = xtrace_at b L'.
Proof.
  induction b as [| |x k IH|inner IHi k IHk|b IHb k IHk]; intros L L' E; simpl; auto.
  - rewrite (IH L L' E), (E x). reflexivity.
  - rewrite (IHi (fun x => S (L x)) (fun x => S (L' x))) by (intros; now rewrite E).
    now rewrite (IHk L L' E).
  - now rewrite (IHb L L' E), (IHk L L' E).
Qed.

(* every behaviour, with exceptions caught at any level: attributes and __module__s restored, and the trace *)
Theorem xrun_spec : forall b s s' r t, xrun b s = (s', r, t) -> sites_defined s ->
  same_attrs s s' /\ fmods s' = fmods s /\ xtrace_at b (depth_of s) = (t, r).
Proof.
  induction b as [| |x k IH|inner IHi k IHk|b IHb k IHk]; intros s s' r t R W.
  - simpl in R. inversion R; subst. split; [intros ?; reflexivity|split; reflexivity].
  - simpl in R. inversion R; subst. split; [intros ?; reflexivity|split; reflexivity].
  - simpl in R. destruct (xrun k s) as [[s1 r1] t1] eqn:E. inversion R; subst.
    destruct (IH _ _ _ _ E W) as (A & F & T). simpl. rewrite T. auto.
  - rewrite xrun_nest in R. destruct (enter s) as [s1 saved] eqn:En.
    assert (Es1 : s1 = fst (enter s)) by (rewrite En; reflexivity).
    assert (Esv : saved = snd (enter s)) by (rewrite En; reflexivity).
    destruct (xrun inner s1) as [[s2 r2] t2] eqn:Ei. cbv zeta in R.
    assert (W1 : sites_defined s1) by (rewrite Es1; apply enter_sites_defined).
    destruct (IHi _ _ _ _ Ei W1) as (A12 & F12 & Ti).
    rewrite (xtrace_at_ext inner (depth_of s1) (fun x => S (depth_of s x))) in Ti
      by (intros x; rewrite Es1; apply enter_layers).
    remember (leave s2 saved) as s3 eqn:Es3.
    assert (A3 : same_attrs s s3).
    { intros kk. rewrite Es3, Esv. destruct (key_site_dec kk) as [[x ->]|Hk].
      - rewrite leave_site. symmetry. now apply site_val_defined.
      - rewrite leave_other by exact Hk. rewrite (A12 kk), Es1. now apply enter_other. }
    assert (F3 : fmods s3 = fmods s) by (rewrite Es3, Esv, leave_fmods, F12, Es1; apply enter_fmods).
    assert (W3 : sites_defined s3) by (intros x; rewrite (A3 (site_key x)); apply W).
    assert (D3 : forall x, depth_of s3 x = depth_of s x).
    { intros x. unfold depth_of. rewrite Es3, Esv. now rewrite leave_site_val. }
    simpl. rewrite Ti. destruct r2.
    + inversion R; subst. auto.
    + destruct (xrun k s3) as [[s4 r4] t4] eqn:Ek. inversion R; subst.
      destruct (IHk _ _ _ _ Ek W3) as (A34 & F34 & Tk).
      rewrite (xtrace_at_ext k _ (depth_of s) D3) in Tk. rewrite Tk. split; [|split; [congruence|reflexivity]].
      intros k0. etransitivity; [apply A34|apply A3].
  - simpl in R. destruct (xrun b s) as [[s1 r1] t1] eqn:Eb.
    destruct (IHb _ _ _ _ Eb W) as (A1 & F1 & Tb).
    assert (W1 : sites_defined s1) by (intros x; rewrite (A1 (site_key x)); apply W).
    destruct (xrun k s1) as [[s2 r2] t2] eqn:Ek. inversion R; subst.
    destruct (IHk _ _ _ _ Ek W1) as (A2 & F2 & Tk).
    assert (D1 : forall x, depth_of s1 x = depth_of s x).
    { intros x. unfold depth_of, site_val. now rewrite (A1 (site_key x)). }
    rewrite (xtrace_at_ext k _ (depth_of s) D1) in Tk. simpl. rewrite Tb, Tk.
    split; [|split; [congruence|reflexivity]]. intros k0. etransitivity; [apply A2|apply A1].
Qed.

Theorem retain_ltype_catching b s : sites_defined s ->
  let '(s', raised, t) := xrun (XNest b XRet) s in
  (forall k, getattr s' k = getattr s k) /\ (forall f, fmod s' f = fmod s f) /\
  (t, raised) = xtrace_at b (fun x => S (layers (site_val s x))).
Proof.
  intros W. destruct (xrun (XNest b XRet) s) as [[s' r] t] eqn:E.
  destruct (xrun_spec _ _ _ _ _ E W) as (A & F & T). split; [exact A|]. split; [intros f; now apply fmod_of_fmods|].
  simpl in T. change (fun x => S (depth_of s x)) with (fun x => S (layers (site_val s x))) in T.
  destruct (xtrace_at b (fun x => S (layers (site_val s x)))) as [t0 r0].
  destruct r0; inversion T; subst; [reflexivity|now rewrite app_nil_r].
Qed.

(* an exception raised two contexts deep, caught in the outer context, then a call: one wrapper again *)
Example catching_trace :
  xtrace_at (XTry (XNest (XNest (XCall S_add_batch XRaise) XRet) XRet) (XCall S_add_batch XRet)) (fun _ => 1)
  = ([(S_add_batch, 3); (S_add_batch, 1)], false).
Proof. reflexivity. Qed.

(* ======================= 5. no write at any time ======================= *)
(* [post_args p args = args] says the arguments have their old values at the end.  Stronger: the storages written
   DURING the run (in order).  A function passing the check never writes into an argument's storage, not even
   transiently (a write that is later undone would still bump the tensor's version counter and break autograd). *)
Section Writes.
Variable D : Type.
Variable d0 : D.
Fixpoint writes (p : prog D) (env : nat -> nat) (st : list D) : list nat :=
  match p with
  | Ret _ => []
  | Alias dst src k => writes k (upd env dst (env src)) st
  | Fresh dst f srcs k => writes k (upd env dst (length st)) (st ++ [f (map (rd D d0 env st) srcs)])
  | Inplace dst f srcs k => env dst :: writes k env (set_nth D st (env dst) (f (map (rd D d0 env st) srcs)))
  | If c srcs kt ke => if c (map (rd D d0 env st) srcs) then writes kt env st else writes ke env st
  end.

Lemma writes_reported (nargs : nat) : forall (p : prog D) env st T,
  (forall v, env v < nargs -> T v = Some (env v)) -> nargs <= length st ->
  forall id, In id (writes p env st) -> id < nargs -> In id (mut D p T).
Proof.
  induction p as [vs|dst src k IH|dst f srcs k IH|dst f srcs k IH|c srcs kt IHt ke IHe]; intros env st T Inv Hn id Hin Hid; simpl in *.
  - contradiction.
  - eapply IH; eauto. intros v Hv. unfold upd in *. destruct (v =? dst); auto.
  - eapply IH; [| |exact Hin|exact Hid].
    + intros v Hv. unfold upd in *. destruct (v =? dst); [lia|auto].
    + rewrite app_length. simpl. lia.
  - destruct Hin as [<-|Hin].
    + rewrite (Inv _ Hid). now left.
    + assert (L : nargs <= length (set_nth D st (env dst) (f (map (rd D d0 env st) srcs)))) by (now rewrite set_nth_length).
      specialize (IH env _ T Inv L id Hin Hid). destruct (T dst); [now right|exact IH].
  - destruct (c (map (rd D d0 env st) srcs)); apply in_or_app; [left; eapply IHt|right; eapply IHe]; eauto.
Qed.

(* [writes] is the write set of [exec]: a storage that is not in it keeps its contents *)
Lemma unwritten_kept : forall (p : prog D) env st id,
  id < length st -> ~ In id (writes p env st) -> nth id (fst (exec D d0 p env st)) d0 = nth id st d0.
Proof.
  induction p as [vs|dst src k IH|dst f srcs k IH|dst f srcs k IH|c srcs kt IHt ke IHe]; intros env st id Hid Hn; simpl in *.
  - reflexivity.
  - now apply IH.
  - rewrite IH; [apply app_nth1; exact Hid|rewrite app_length; simpl; lia|exact Hn].
  - rewrite IH; [|now rewrite set_nth_length|intro; apply Hn; now right].
    apply set_nth_other. intro; apply Hn; now left.
  - destruct (c (map (rd D d0 env st) srcs)); auto.
Qed.

(* a function whose check reports nothing never writes into the storage of an argument *)
Theorem never_writes_arguments (p : prog D) (args : list D) :
  may_mutate D (length args) p = [] ->
  forall id, In id (writes p (fun v => v) args) -> length args <= id.
Proof.
  intros H id Hin. destruct (Nat.lt_ge_cases id (length args)) as [Hlt|Hge]; [|exact Hge]. exfalso.
  pose proof (writes_reported (length args) p (fun v => v) args (taint0 (length args))) as W.
  unfold may_mutate in H. rewrite H in W. apply (W) with (id := id); auto.
  intros v Hv. unfold taint0. apply Nat.ltb_lt in Hv. now rewrite Hv.
Qed.
End Writes.
