(* C11, second part: the conversions on EVERY proper rotation matrix (no quaternion presupposed). *)
From Coq Require Import Reals Lra Psatz List Nsatz.
Import ListNotations.
From PV Require Import Base.Num Base.RTac Model.LieGroup Model.Convert Proofs.LieGroup Proofs.Convert.
Local Open Scope R_scope.
#[local] Remove Hints NumQ NumZ : typeclass_instances.

(* a proper rotation matrix: M M^T = I and det M = 1 (what check=True tests, with zero tolerance) *)
Definition rotation (M : @mat3 R) : Prop := mmul3 M (mtrans M) = mid3 /\ mdet3 M = 1.

Section Rot.
Variables a b c d e f g h k : R.
Hypothesis O00 : a*a + b*b + c*c = 1.
Hypothesis O11 : d*d + e*e + f*f = 1.
Hypothesis O22 : g*g + h*h + k*k = 1.
Hypothesis O01 : a*d + b*e + c*f = 0.
Hypothesis O02 : a*g + b*h + c*k = 0.
Hypothesis O12 : d*g + e*h + f*k = 0.
Hypothesis D : a*(e*k - f*h) + b*(f*g - d*k) + c*(d*h - e*g) = 1.

(* a rotation matrix is its own cofactor matrix *)
Lemma cof_a : a = e*k - f*h. Proof. nsatz. Qed.
Lemma cof_b : b = f*g - d*k. Proof. nsatz. Qed.
Lemma cof_c : c = d*h - e*g. Proof. nsatz. Qed.
Lemma cof_d : d = c*h - b*k. Proof. nsatz. Qed.
Lemma cof_e : e = a*k - c*g. Proof. nsatz. Qed.
Lemma cof_f : f = b*g - a*h. Proof. nsatz. Qed.
Lemma cof_g : g = b*f - c*e. Proof. nsatz. Qed.
Lemma cof_h : h = c*d - a*f. Proof. nsatz. Qed.
Lemma cof_k : k = a*e - b*d. Proof. nsatz. Qed.

(* what a candidate (cx, cy, cz, cw) with radicand t must satisfy *)
Definition ids (t cx cy cz cw : R) : Prop :=
  cx*cx + cy*cy + cz*cz + cw*cw = 4*t /\
  cy*cy + cz*cz = 2*t*(1 - a) /\ cx*cy - cz*cw = 2*t*b /\ cx*cz + cy*cw = 2*t*c /\
  cx*cy + cz*cw = 2*t*d /\ cx*cx + cz*cz = 2*t*(1 - e) /\ cy*cz - cx*cw = 2*t*f /\
  cx*cz - cy*cw = 2*t*g /\ cy*cz + cx*cw = 2*t*h /\ cx*cx + cy*cy = 2*t*(1 - k).

Ltac ids_tac :=
  pose proof cof_a as Ca; pose proof cof_b as Cb; pose proof cof_c as Cc;
  pose proof cof_d as Cd; pose proof cof_e as Ce; pose proof cof_f as Cf;
  pose proof cof_g as Cg; pose proof cof_h as Ch; pose proof cof_k as Ck;
  unfold ids; repeat split; nsatz.
Lemma ids3 : ids (1 + a + e + k) (h - f) (c - g) (d - b) (1 + a + e + k). Proof. ids_tac. Qed.
Lemma ids0 : ids (1 + a - e - k) (1 + a - e - k) (b + d) (c + g) (h - f). Proof. ids_tac. Qed.
Lemma ids1 : ids (1 - a + e - k) (b + d) (1 - a + e - k) (f + h) (c - g). Proof. ids_tac. Qed.
Lemma ids2 : ids (1 - a - e + k) (c + g) (f + h) (1 - a - e + k) (d - b). Proof. ids_tac. Qed.
End Rot.

(* the normalised candidate is a unit quaternion with matrix M *)
Lemma quat_of_cand a b c d e f g h k t cx cy cz cw : 0 < t -> ids a b c d e f g h k t cx cy cz cw ->
  let n := 2 * sqrt t in
  let q : quatR := ((cx / n, cy / n, cz / n), cw / n) in
  unitq q /\ SO3_matrix q = ((a, b, c), (d, e, f), (g, h, k)).
Proof.
  intros Ht [I0 [I1 [I2 [I3 [I4 [I5 [I6 [I7 [I8 I9]]]]]]]]] n q.
  assert (Hr : 0 < sqrt t) by now apply sqrt_lt_R0.
  assert (Hrr : sqrt t * sqrt t = t) by (apply sqrt_sqrt; lra).
  unfold q, n. set (r := sqrt t) in *. clearbody r. clear q n.
  assert (Hr0 : r <> 0) by lra.
  split.
  - unfold unitq. lie_unfold. field_simplify_eq; [|assumption]. cbn [Rpow_def.pow].
    clear - Hrr I0. nsatz.
  - lie_unfold. split_pairs; (field_simplify_eq; [|assumption]); cbn [Rpow_def.pow].
    all: clear - Hrr I0 I1 I2 I3 I4 I5 I6 I7 I8 I9.
    all: nsatz.
Qed.

Lemma rotation_entries a b c d e f g h k : rotation ((a, b, c), (d, e, f), (g, h, k)) ->
  (a*a + b*b + c*c = 1 /\ d*d + e*e + f*f = 1 /\ g*g + h*h + k*k = 1) /\
  (a*d + b*e + c*f = 0 /\ a*g + b*h + c*k = 0 /\ d*g + e*h + f*k = 0) /\
  a*(e*k - f*h) + b*(f*g - d*k) + c*(d*h - e*g) = 1.
Proof.
  unfold rotation. lie_unfold. intros [Ho Hd].
  injection Ho as E00 E01 E02 E10 E11 E12 E20 E21 E22.
  split; [split; [|split] | split; [split; [|split]|]]; assumption.
Qed.

(* every proper rotation matrix is the matrix of a unit quaternion *)
Theorem rotation_has_quaternion (M : @mat3 R) : rotation M -> exists q, unitq q /\ SO3_matrix q = M.
Proof.
  destruct M as [[[[a b] c] [[d e] f]] [[g h] k]]. intros HR.
  destruct (rotation_entries _ _ _ _ _ _ _ _ _ HR) as [[O00 [O11 O22]] [[O01 [O02 O12]] D]].
  destruct (Rlt_le_dec 0 (1 + a + e + k)) as [H3|H3].
  { pose proof (quat_of_cand a b c d e f g h k _ _ _ _ _ H3 (ids3 a b c d e f g h k O00 O11 O22 O01 O02 O12 D)) as P.
    cbv zeta in P. eexists. exact P. }
  destruct (Rlt_le_dec 0 (1 + a - e - k)) as [H0|H0].
  { pose proof (quat_of_cand a b c d e f g h k _ _ _ _ _ H0 (ids0 a b c d e f g h k O00 O11 O22 O01 O02 O12 D)) as P.
    cbv zeta in P. eexists. exact P. }
  destruct (Rlt_le_dec 0 (1 - a + e - k)) as [H1|H1].
  { pose proof (quat_of_cand a b c d e f g h k _ _ _ _ _ H1 (ids1 a b c d e f g h k O00 O11 O22 O01 O02 O12 D)) as P.
    cbv zeta in P. eexists. exact P. }
  destruct (Rlt_le_dec 0 (1 - a - e + k)) as [H2|H2].
  { pose proof (quat_of_cand a b c d e f g h k _ _ _ _ _ H2 (ids2 a b c d e f g h k O00 O11 O22 O01 O02 O12 D)) as P.
    cbv zeta in P. eexists. exact P. }
  exfalso. lra.
Qed.
Lemma quaternion_matrix_rotation q : unitq q -> rotation (SO3_matrix q).
Proof. intros Hu. split; [now apply SO3_matrix_orth | now apply SO3_matrix_det]. Qed.

(* mat2SO3, one item: every proper rotation, every -1 < atol < 1 *)
Theorem core_rotation atol (M : @mat3 R) : -1 < atol < 1 -> rotation M ->
  exists q, mat2SO3_core atol M = Some q /\ unitq q /\ SO3_matrix q = M.
Proof.
  intros Ha HR. destruct (rotation_has_quaternion M HR) as [q0 [Hu <-]].
  destruct (core_roundtrip_same atol q0 Ha Hu) as [q' [E Hs]].
  exists q'. split; [exact E|]. split; [now apply (qsame_unit q0) | now apply qsame_matrix].
Qed.
(* the selected radicand on every rotation *)
Lemma disc_bound_rotation atol (M : @mat3 R) : rotation M -> 1 - Rabs atol <= mat2SO3_disc atol M.
Proof. intros HR. destruct (rotation_has_quaternion M HR) as [q0 [Hu <-]]. now apply disc_bound. Qed.

Lemma Forall_rotation_quats (Ms : list (@mat3 R)) : Forall rotation Ms ->
  exists qs, Forall unitq qs /\ Ms = map SO3_matrix qs.
Proof.
  induction 1 as [|M Ms HM _ [qs [Hq ->]]].
  - exists []. split; [constructor | reflexivity].
  - destruct (rotation_has_quaternion M HM) as [q [Hu <-]]. exists (q :: qs). split; [now constructor | reflexivity].
Qed.
Lemma Forall2_map_l {A B C} (P : B -> C -> Prop) (f : A -> B) l out :
  Forall2 (fun x o => P (f x) o) l out -> Forall2 P (map f l) out.
Proof. induction 1; cbn; constructor; auto. Qed.
Lemma Forall2_impl {A B} (P Q : A -> B -> Prop) l out :
  (forall x o, In x l -> P x o -> Q x o) -> Forall2 P l out -> Forall2 Q l out.
Proof.
  intros H F. induction F as [|x o l out Hxo F IH]; constructor.
  - apply H; [now left | assumption].
  - apply IH. intros x' o' Hin. apply H. now right.
Qed.

(* item i of the result: a unit quaternion with the matrix of item i of the input *)
Definition so3_of (M : @mat3 R) (o : option quatR) : Prop := exists q, o = Some q /\ unitq q /\ SO3_matrix q = M.
Theorem mat2SO3_rotation rtol atol check (Ms : list (@mat3 R)) :
  0 <= rtol -> 0 <= atol < 1 -> Forall rotation Ms ->
  exists out, mat2SO3 rtol atol check (map Some Ms) = Value out /\ Forall2 so3_of Ms out.
Proof.
  intros Hr Ha HM. destruct (Forall_rotation_quats Ms HM) as [qs [Hq ->]].
  destruct (mat2SO3_roundtrip rtol atol check qs Hr Ha Hq) as [out [E F]].
  exists out. rewrite map_map. split; [exact E|].
  apply Forall2_map_l. rewrite Forall_forall in Hq. revert F. apply Forall2_impl.
  intros q o Hin Hrt. apply so3_rt_same; auto.
Qed.

(* ---------------- list transfer: items with a preimage *)
Lemma preimages {A B} (Q : A -> Prop) (S : A -> B -> Prop) :
  (forall a, Q a -> exists b, S a b) -> forall l, Forall Q l -> exists bs, Forall2 S l bs.
Proof.
  intros H l F. induction F as [|a l Ha _ [bs IH]].
  - exists []. constructor.
  - destruct (H a Ha) as [b Hb]. exists (b :: bs). now constructor.
Qed.
Lemma Forall2_maps {A B C} (f : A -> C) (g : B -> C) l bs :
  Forall2 (fun a b => g b = f a) l bs -> map f l = map g bs.
Proof. induction 1; cbn; congruence. Qed.
Lemma Forall2_weaken {A B} (P Q : A -> B -> Prop) l out :
  (forall x o, P x o -> Q x o) -> Forall2 P l out -> Forall2 Q l out.
Proof. intros H F. induction F; constructor; auto. Qed.
Lemma Forall2_Forall_r {A B} (P : A -> B -> Prop) (Q : B -> Prop) l bs :
  Forall2 P l bs -> (forall a b, P a b -> Q b) -> Forall Q bs.
Proof. intros F H. induction F; constructor; eauto. Qed.
Lemma Forall2_comp {A B C} (P : A -> B -> Prop) (Q : B -> C -> Prop) l bs out :
  Forall2 P l bs -> Forall2 Q bs out -> Forall2 (fun a o => exists b, P a b /\ Q b o) l out.
Proof.
  intros F. revert out. induction F as [|a b l bs Hab F IH]; intros out G; inversion G; subst; constructor; eauto.
Qed.
Lemma Forall2_In_l {A B} (P : A -> B -> Prop) l bs a : Forall2 P l bs -> In a l -> exists b, In b bs /\ P a b.
Proof.
  intros F. induction F as [|a' b l bs Hab F IH]; intros Hin; [destruct Hin|].
  destruct Hin as [->|Hin]; [exists b; split; [now left | assumption]|].
  destruct (IH Hin) as [b' [Hb' Hp]]. exists b'. split; [now right | assumption].
Qed.

(* ---------------- mat2SE3 on every rigid transformation matrix [[R, t], [0, 1]] *)
Definition se3_of (l : layout) (T : @mat3 R * vec3R) (o : option se3R) : Prop :=
  exists X, o = Some X /\ valid_SE3 X /\ matrix4 SE3_act4 X = block4 (fst T) (lay_t l (snd T)).
Theorem mat2SE3_rotation rtol atol check l (Ts : list (@mat3 R * vec3R)) :
  0 <= rtol -> 0 <= atol < 1 -> Forall (fun T => rotation (fst T)) Ts ->
  exists out, mat2SE3 rtol atol check (map (fun T => lay_in l (block4 (fst T) (snd T))) Ts) = Value out /\
              Forall2 (se3_of l) Ts out.
Proof.
  intros Hr Ha HT.
  assert (Hpre : forall T : @mat3 R * vec3R, rotation (fst T) ->
            exists X : se3R, valid_SE3 X /\ fst X = snd T /\ SO3_matrix (snd X) = fst T).
  { intros T HR. destruct (rotation_has_quaternion _ HR) as [q [Hu E]].
    exists (snd T, q). cbn [fst snd]. split; [exact Hu|]. split; [reflexivity | exact E]. }
  destruct (preimages _ _ Hpre Ts HT) as [Xs F].
  assert (HX : Forall valid_SE3 Xs) by (apply (Forall2_Forall_r _ _ _ _ F); intros a b [H _]; exact H).
  destruct (mat2SE3_roundtrip rtol atol check l Xs Hr Ha HX) as [out [E G]].
  exists out. split.
  - rewrite <- E. f_equal. apply Forall2_maps. revert F. apply Forall2_weaken.
    intros T X [_ [Ht Hm]]. rewrite SE3_matrix_blocks, Ht, Hm. reflexivity.
  - pose proof (Forall2_comp _ _ _ _ _ F G) as C. revert C. apply Forall2_weaken.
    intros T o [X [[Hv [Ht Hm]] Hrt]]. destruct (se3_rt_same l X o Hv Hrt) as [X' [-> [Hv' Hm']]].
    exists X'. split; [reflexivity|]. split; [assumption|]. now rewrite Hm', Hm, Ht.
Qed.

(* ---------------- mat2Sim3 / mat2RxSO3 on every similarity matrix [[s R, t], [0, 1]], s > 0 *)
Definition sim3_of (l : layout) (T : @mat3 R * vec3R * R) (o : option sim3R) : Prop :=
  exists X, o = Some X /\ valid_Sim3 X /\ snd (snd X) = snd T /\
            matrix4 Sim3_act4 X = block4 (mscale3 (snd T) (fst (fst T))) (lay_t l (snd (fst T))).
Theorem mat2Sim3_rotation rtol atol check l (Ts : list (@mat3 R * vec3R * R)) :
  0 <= rtol -> 0 <= atol < 1 -> Forall (fun T => rotation (fst (fst T)) /\ 0 < snd T) Ts ->
  (Ts = [] \/ exists T, In T Ts /\ atol < snd T) ->
  exists out, mat2Sim3 rtol atol check
                (map (fun T => lay_in l (block4 (mscale3 (snd T) (fst (fst T))) (snd (fst T)))) Ts) = Value out /\
              Forall2 (sim3_of l) Ts out.
Proof.
  intros Hr Ha HT Hs.
  assert (Hpre : forall T : @mat3 R * vec3R * R, rotation (fst (fst T)) /\ 0 < snd T ->
            exists X : sim3R, valid_Sim3 X /\ fst X = snd (fst T) /\ SO3_matrix (fst (snd X)) = fst (fst T) /\ snd (snd X) = snd T).
  { intros T [HR Hp]. destruct (rotation_has_quaternion _ HR) as [q [Hu E]].
    exists (snd (fst T), (q, snd T)). cbn [fst snd]. split; [split; assumption|]. split; [reflexivity|]. split; [exact E | reflexivity]. }
  destruct (preimages _ _ Hpre Ts HT) as [Xs F].
  assert (HX : Forall valid_Sim3 Xs) by (apply (Forall2_Forall_r _ _ _ _ F); intros a b [H _]; exact H).
  assert (Hs' : Xs = [] \/ exists X, In X Xs /\ atol < snd (snd X)).
  { destruct Hs as [-> | [T [HTin HTs]]]; [left; now inversion F|].
    right. destruct (Forall2_In_l _ _ _ _ F HTin) as [X [HXin [_ [_ [_ Hsc]]]]]. exists X. split; [assumption | now rewrite Hsc]. }
  destruct (mat2Sim3_roundtrip rtol atol check l Xs Hr Ha HX Hs') as [out [E G]].
  exists out. split.
  - rewrite <- E. f_equal. apply Forall2_maps. revert F. apply Forall2_weaken.
    intros T X [_ [Ht [Hm Hsc]]]. rewrite Sim3_matrix_blocks, Ht, Hm, Hsc. reflexivity.
  - pose proof (Forall2_comp _ _ _ _ _ F G) as C. revert C. apply Forall2_weaken.
    intros T o [X [[Hv [Ht [Hm Hsc]]] Hrt]]. destruct (sim3_rt_same l X o Hv Hrt) as [X' [-> [Hv' [Hs'' Hm']]]].
    exists X'. split; [reflexivity|]. split; [assumption|]. split; [now rewrite Hs'', Hsc|]. now rewrite Hm', Hm, Ht, Hsc.
Qed.


(* mat2RxSO3 reads the 3x3 block only: the translation column of a 3x4 / 4x4 input is dropped *)
Lemma combine_map_l {A B C} (f : A -> B) (l : list A) (l' : list C) :
  combine (map f l) l' = map (fun p => (f (fst p), snd p)) (combine l l').
Proof. revert l'. induction l as [|a l IH]; intros [|c l']; cbn; [reflexivity..|]. now rewrite IH. Qed.
Lemma scale_stage_rot_only rtol atol (Ms Ms' : list (@matin R)) :
  map in_rot Ms = map in_rot Ms' -> scale_stage rtol atol Ms = scale_stage rtol atol Ms'.
Proof.
  intros H. unfold scale_stage.
  assert (E : forall L : list (@matin R), map (fun m => cbrt (mdet3 (in_rot m))) L = map (fun r => cbrt (mdet3 r)) (map in_rot L))
    by (intros; now rewrite map_map).
  now rewrite !E, H.
Qed.
Lemma mat2RxSO3_rot_only rtol atol check (Ms Ms' : list (@matin R)) :
  map in_rot Ms = map in_rot Ms' -> mat2RxSO3 rtol atol check Ms = mat2RxSO3 rtol atol check Ms'.
Proof.
  intros H. unfold mat2RxSO3. rewrite (scale_stage_rot_only _ _ _ _ H).
  destruct (scale_stage rtol atol Ms') as [ss|e]; [|reflexivity]. cbn [obind].
  assert (E : forall L : list (@matin R), map (fun ms => mdiv3 (in_rot (fst ms)) (snd ms)) (combine L ss) =
                     map (fun rs => mdiv3 (fst rs) (snd rs)) (combine (map in_rot L) ss))
    by (intros; rewrite combine_map_l, map_map; reflexivity).
  now rewrite !E, H.
Qed.
Lemma lay_in_rot_t l (A : @mat3 R) t t' : in_rot (lay_in l (block4 A t)) = in_rot (lay_in l (block4 A t')).
Proof. now rewrite !lay_block_rot. Qed.
Definition rxso3_of (T : @mat3 R * vec3R * R) (o : option rxso3R) : Prop :=
  exists X, o = Some X /\ valid_RxSO3 X /\ snd X = snd T /\
            matrix4 RxSO3_act4 X = block4 (mscale3 (snd T) (fst (fst T))) vzero.
(* the translation column of the input is ignored (an RxSO3 element has none) *)
Theorem mat2RxSO3_rotation rtol atol check l (Ts : list (@mat3 R * vec3R * R)) :
  0 <= rtol -> 0 <= atol < 1 -> Forall (fun T => rotation (fst (fst T)) /\ 0 < snd T) Ts ->
  (Ts = [] \/ exists T, In T Ts /\ atol < snd T) ->
  exists out, mat2RxSO3 rtol atol check
                (map (fun T => lay_in l (block4 (mscale3 (snd T) (fst (fst T))) (snd (fst T)))) Ts) = Value out /\
              Forall2 rxso3_of Ts out.
Proof.
  intros Hr Ha HT Hs.
  assert (Hpre : forall T : @mat3 R * vec3R * R, rotation (fst (fst T)) /\ 0 < snd T ->
            exists X : rxso3R, valid_RxSO3 X /\ SO3_matrix (fst X) = fst (fst T) /\ snd X = snd T).
  { intros T [HR Hp]. destruct (rotation_has_quaternion _ HR) as [q [Hu E]].
    exists (q, snd T). cbn [fst snd]. split; [split; assumption|]. split; [exact E | reflexivity]. }
  destruct (preimages _ _ Hpre Ts HT) as [Xs F].
  assert (HX : Forall valid_RxSO3 Xs) by (apply (Forall2_Forall_r _ _ _ _ F); intros a b [H _]; exact H).
  assert (Hs' : Xs = [] \/ exists X, In X Xs /\ atol < snd X).
  { destruct Hs as [-> | [T [HTin HTs]]]; [left; now inversion F|].
    right. destruct (Forall2_In_l _ _ _ _ F HTin) as [X [HXin [_ [_ Hsc]]]]. exists X. split; [assumption | now rewrite Hsc]. }
  destruct (mat2RxSO3_roundtrip rtol atol check l Xs Hr Ha HX Hs') as [out [E G]].
  exists out. split.
  - rewrite <- E. apply mat2RxSO3_rot_only. rewrite !map_map. apply Forall2_maps. revert F. apply Forall2_weaken.
    intros T X [_ [Hm Hsc]]. rewrite RxSO3_matrix4_blocks, Hm, Hsc. apply lay_in_rot_t.
  - pose proof (Forall2_comp _ _ _ _ _ F G) as C. revert C. apply Forall2_weaken.
    intros T o [X [[Hv [Hm Hsc]] Hrt]]. destruct (rxso3_rt_same X o Hv Hrt) as [X' [-> [Hv' [Hs'' Hm']]]].
    exists X'. split; [reflexivity|]. split; [assumption|]. split; [now rewrite Hs'', Hsc|].
    now rewrite Hm', RxSO3_matrix4_blocks, Hm, Hsc.
Qed.
