(* Proofs about Model/Broadcast.v: the flatten-expand / item-wise kernel / un-flatten pipeline of
   every binary LieTensor operation computes, at every output multi-index, the kernel applied to
   the broadcast operand items -- for all shapes (any rank, any extents, 0 and rank 0 included). *)
From Coq Require Import String.
From Coq Require Import List Arith Bool PeanoNat Lia.
Import ListNotations.
From PV Require Import Base.Num Model.LieGroup Model.Broadcast.

(* ---------------- small list facts ---------------- *)
Lemma pad_length n s : length s <= n -> length (pad n s) = n.
Proof. intros. unfold pad. rewrite app_length, repeat_length. lia. Qed.

Lemma pad_self s : pad (length s) s = s.
Proof. unfold pad. now rewrite Nat.sub_diag. Qed.

Lemma Forall2_skipn {X Y} (P : X -> Y -> Prop) m : forall l l', Forall2 P l l' -> Forall2 P (skipn m l) (skipn m l').
Proof.
  induction m; intros l l' H; simpl; auto.
  destruct H; simpl; auto.
Qed.

Lemma skipn_repeat_app {X} (a : X) m s : skipn m (repeat a m ++ s) = s.
Proof. induction m; simpl; auto. Qed.

Lemma Forall2_length' {X Y} (P : X -> Y -> Prop) l l' : Forall2 P l l' -> length l = length l'.
Proof. induction 1; simpl; auto. Qed.

(* ---------------- row-major enumeration ---------------- *)
Lemma indices_length T : length (indices T) = numel T.
Proof.
  induction T as [|d T IH]; simpl; auto.
  assert (G : forall a n, length (flat_map (fun k => map (cons k) (indices T)) (seq a n)) = n * numel T).
  { intros a n; revert a; induction n; intros a; simpl; auto.
    rewrite app_length, map_length, IH, IHn. lia. }
  apply G.
Qed.

Lemma nth_error_flat_map_seq {X} (f : nat -> list X) m :
  (forall k, length (f k) = m) ->
  forall d a k r, k < d -> r < m ->
  nth_error (flat_map f (seq a d)) (k * m + r) = nth_error (f (a + k)) r.
Proof.
  intros Hm; induction d; intros a k r Hk Hr; [lia|].
  simpl. destruct k.
  - simpl. rewrite nth_error_app1 by (rewrite Hm; lia). now rewrite Nat.add_0_r.
  - rewrite nth_error_app2 by (rewrite Hm; simpl; lia).
    rewrite Hm. replace (S k * m + r - m) with (k * m + r) by (simpl; lia).
    rewrite IHd by lia. f_equal. f_equal. lia.
Qed.

Lemma ravel_lt T : forall i, valid_idx T i -> ravel T i < numel T.
Proof.
  unfold ravel, valid_idx. induction T as [|d T IH]; intros i H; inversion H; subst; simpl; [lia|].
  specialize (IH _ H4). nia.
Qed.

Lemma nth_error_indices T : forall i, valid_idx T i -> nth_error (indices T) (ravel T i) = Some i.
Proof.
  unfold ravel, valid_idx. induction T as [|d T IH]; intros i H; inversion H; subst; simpl; auto.
  rewrite (nth_error_flat_map_seq (fun k => map (cons k) (indices T)) (numel T)).
  - simpl. rewrite nth_error_map, (IH _ H4). reflexivity.
  - intros. now rewrite map_length, indices_length.
  - assumption.
  - apply (ravel_lt T). exact H4.
Qed.

(* ---------------- expand = stride 0 on broadcast dimensions ---------------- *)
Lemma exp_eq_offset : forall s st T e i,
  exp_eq s st T = Some e -> Forall2 lt i T -> offset i e = offset (bidx_eq s i) st.
Proof.
  induction s as [|d s IH]; intros st T e i He Hi.
  - destruct st, T; simpl in He; try discriminate. inversion He; subst. inversion Hi; subst. reflexivity.
  - destruct st as [|x st], T as [|t T]; simpl in He; try discriminate.
    destruct (exp_eq s st T) as [r|] eqn:Er.
    2:{ destruct (d =? t); [discriminate|]. destruct (d =? 1); discriminate. }
    inversion Hi as [|k t' i' T' Hk Hi']; subst. simpl.
    specialize (IH _ _ _ _ Er Hi').
    destruct (d =? t) eqn:Edt.
    + inversion He; subst. simpl. apply Nat.eqb_eq in Edt. subst t.
      destruct (d =? 1) eqn:Ed1.
      * apply Nat.eqb_eq in Ed1. subst d. assert (k = 0) by lia. subst k. simpl. exact IH.
      * simpl. now rewrite IH.
    + destruct (d =? 1) eqn:Ed1; [|discriminate]. inversion He; subst. simpl. rewrite IH. lia.
Qed.

Lemma offset_zero_prefix m : forall j st, offset j (repeat 0 m ++ st) = offset (skipn m j) st.
Proof.
  induction m; intros j st; simpl; auto.
  destruct j as [|k j]; simpl; auto. rewrite IHm. lia.
Qed.

Lemma expand_offset s T e i :
  expand_strides s T = Some e -> valid_idx T i -> offset i e = ravel s (bidx s i).
Proof.
  unfold expand_strides, valid_idx, bidx, ravel. intros He Hi.
  destruct (length T <? length s) eqn:El; [discriminate|].
  rewrite (exp_eq_offset _ _ _ _ _ He Hi), offset_zero_prefix.
  now rewrite (Forall2_length' _ _ _ Hi).
Qed.

(* dimension-wise compatibility: operand dimension equals the target dimension or is 1 *)
Definition compat (s T : shape) : Prop := Forall2 (fun d t => d = t \/ d = 1) s T.

Lemma exp_eq_some : forall s st T, compat s T -> length st = length s -> exists e, exp_eq s st T = Some e.
Proof.
  unfold compat. induction s as [|d s IH]; intros st T H Hl; inversion H; subst.
  - destruct st; [|discriminate]. now exists [].
  - destruct st as [|x st]; [discriminate|]. simpl in Hl. injection Hl as Hl.
    destruct (IH st _ H4 Hl) as [r Er]. simpl. rewrite Er.
    destruct H2 as [->| ->].
    + rewrite Nat.eqb_refl. eauto.
    + destruct (1 =? y); simpl; eauto.
Qed.

Lemma strides_length s : length (strides s) = length s.
Proof. induction s; simpl; auto. Qed.

Lemma expand_some s T : length s <= length T -> compat (pad (length T) s) T -> exists e, expand_strides s T = Some e.
Proof.
  intros Hl Hc. unfold expand_strides.
  destruct (length T <? length s) eqn:E; [apply Nat.ltb_lt in E; lia|].
  apply exp_eq_some; auto.
  rewrite app_length, repeat_length, strides_length, pad_length; lia.
Qed.

Lemma bidx_eq_valid : forall s T i, compat s T -> Forall2 lt i T -> Forall2 lt (bidx_eq s i) s.
Proof.
  unfold compat. induction s as [|d s IH]; intros T i Hc Hi; inversion Hc; subst; inversion Hi; subst; simpl; constructor.
  - destruct (d =? 1) eqn:E; [apply Nat.eqb_eq in E; lia|].
    apply Nat.eqb_neq in E. destruct H1; [subst; auto|contradiction].
  - eapply IH; eauto.
Qed.

Lemma bidx_valid s T i : length s <= length T -> compat (pad (length T) s) T -> valid_idx T i -> valid_idx s (bidx s i).
Proof.
  unfold valid_idx, bidx. intros Hl Hc Hi.
  pose proof (Forall2_length' _ _ _ Hi) as Hlen. rewrite Hlen.
  pose proof (bidx_eq_valid _ _ _ Hc Hi) as H.
  apply (Forall2_skipn _ (length T - length s)) in H.
  unfold pad in H at 2. now rewrite skipn_repeat_app in H.
Qed.

(* ---------------- broadcast_shapes ---------------- *)
Lemma bdim_some x y d : bdim x y = Some d -> (x = d \/ x = 1) /\ (y = d \/ y = 1).
Proof.
  unfold bdim. destruct (x =? y) eqn:E1.
  - apply Nat.eqb_eq in E1. intros H; inversion H; subst; auto.
  - destruct (x =? 1) eqn:E2.
    + apply Nat.eqb_eq in E2. intros H; inversion H; subst; auto.
    + destruct (y =? 1) eqn:E3; [|discriminate].
      apply Nat.eqb_eq in E3. intros H; inversion H; subst; auto.
Qed.

Lemma bcast_eq_compat : forall a b o, bcast_eq a b = Some o -> compat a o /\ compat b o.
Proof.
  unfold compat. induction a as [|x a IH]; intros b o H; destruct b as [|y b]; simpl in H; try discriminate.
  - inversion H; subst. split; constructor.
  - destruct (bdim x y) as [d|] eqn:Ed; [|discriminate].
    destruct (bcast_eq a b) as [r|] eqn:Er; [|discriminate]. inversion H; subst.
    destruct (IH _ _ Er). destruct (bdim_some _ _ _ Ed). split; constructor; auto.
Qed.

Lemma compat_length s T : compat s T -> length s = length T.
Proof. apply Forall2_length'. Qed.

Lemma broadcast_shapes_facts a b o : broadcast_shapes a b = Some o ->
  length o = Nat.max (length a) (length b) /\ compat (pad (length o) a) o /\ compat (pad (length o) b) o.
Proof.
  unfold broadcast_shapes. intros H. destruct (bcast_eq_compat _ _ _ H) as [Ha Hb].
  pose proof (compat_length _ _ Ha) as L. rewrite pad_length in L by lia.
  rewrite <- L. auto.
Qed.

(* ---------------- the kernel applied row by row ---------------- *)
Section Spec.
Context {A B C : Type}.
Variable (dA : A) (dB : B) (dC : C).

Lemma map2_length (f : A -> B -> C) : forall l m, length (map2 f l m) = Nat.min (length l) (length m).
Proof. induction l; destruct m; simpl; auto. Qed.

Lemma map2_nth (f : A -> B -> C) : forall l m n, n < length l -> n < length m ->
  nth n (map2 f l m) dC = f (nth n l dA) (nth n m dB).
Proof.
  induction l as [|a l IH]; intros m n Hl Hm; destruct m as [|b m]; simpl in *; try lia.
  destruct n; auto. apply IH; lia.
Qed.

Lemma flat_expand_spec {E} (dE : E) (x : tensor E) T st :
  tdim x <> 0 -> expand_strides (tshape x) T = Some st ->
  exists fl, flat_expand dE x T = Some fl /\ length fl = numel T /\
    forall i, valid_idx T i -> nth (ravel T i) fl dE = tget dE x (bidx (tshape x) i).
Proof.
  intros Hd He. unfold flat_expand. apply Nat.eqb_neq in Hd. rewrite Hd, He.
  eexists; split; [reflexivity|]. split.
  - now rewrite map_length, indices_length.
  - intros i Hi. unfold tget.
    rewrite <- (expand_offset _ _ _ _ He Hi).
    pose proof (nth_error_indices T i Hi) as Hn.
    apply (map_nth_error (fun i0 => nth (offset i0 st) (titems x) dE)) in Hn.
    now apply nth_error_nth.
Qed.

Lemma view_last_ok (flat : list C) dout o :
  length flat = numel o -> view_last flat dout o dout = Some (mkT o dout flat).
Proof.
  intros Hl. unfold view_last. rewrite Hl.
  destruct (numel o * dout =? 0) eqn:E0.
  - reflexivity.
  - apply Nat.eqb_neq in E0.
    assert (numel o <> 0) by (intro Z; rewrite Z in E0; simpl in E0; lia).
    destruct (numel o =? 0) eqn:E1; [apply Nat.eqb_eq in E1; lia|].
    rewrite Nat.mul_comm, Nat.mod_mul, Nat.div_mul by assumption. reflexivity.
Qed.

(* the shape actually used for the expansion, and the index used in it *)
Definition sh_of (o : shape) : shape := match o with [] => [1] | _ => o end.
Definition ix_of (o : shape) (i : list nat) : list nat := match o with [] => [0] | _ => i end.

Lemma sh_of_numel o : numel (sh_of o) = numel o.
Proof. destruct o; reflexivity. Qed.

Theorem lie_binop_spec (op : A -> B -> C) (dout : nat) (x : tensor A) (y : tensor B) :
  wf x -> wf y -> tdim x <> 0 -> tdim y <> 0 ->
  match broadcast_shapes (tshape x) (tshape y) with
  | Some o =>
      exists r, lie_binop dA dB op dout dout x y = Some r /\
        tshape r = o /\ tdim r = dout /\ wf r /\
        forall i, valid_idx o i ->
          valid_idx (tshape x) (bidx (tshape x) i) /\ valid_idx (tshape y) (bidx (tshape y) i) /\
          tget dC r i = op (tget dA x (bidx (tshape x) i)) (tget dB y (bidx (tshape y) i))
  | None => lie_binop dA dB op dout dout x y = None
  end.
Proof.
  intros Wx Wy Dx Dy. unfold lie_binop, broadcast_inputs.
  destruct (broadcast_shapes (tshape x) (tshape y)) as [o|] eqn:Eo; [|reflexivity].
  destruct (broadcast_shapes_facts _ _ _ Eo) as (Lo & Cx & Cy).
  cbv zeta. change (match o with [] => [1] | _ :: _ => o end) with (sh_of o).
  (* compatibility with the shape used for the expansion *)
  assert (Lsx : length (tshape x) <= length (sh_of o)) by (destruct o; simpl in Lo |- *; lia).
  assert (Lsy : length (tshape y) <= length (sh_of o)) by (destruct o; simpl in Lo |- *; lia).
  assert (Cx' : compat (pad (length (sh_of o)) (tshape x)) (sh_of o)).
  { destruct o; [|exact Cx]. simpl in Lo. assert (tshape x = []) as -> by (apply length_zero_iff_nil; lia).
    repeat constructor. }
  assert (Cy' : compat (pad (length (sh_of o)) (tshape y)) (sh_of o)).
  { destruct o; [|exact Cy]. simpl in Lo. assert (tshape y = []) as -> by (apply length_zero_iff_nil; lia).
    repeat constructor. }
  destruct (expand_some _ _ Lsx Cx') as [sx Ex]. destruct (expand_some _ _ Lsy Cy') as [sy Ey].
  destruct (flat_expand_spec dA x _ _ Dx Ex) as (fx & Fx & Lx & Nx).
  destruct (flat_expand_spec dB y _ _ Dy Ey) as (fy & Fy & Ly & Ny).
  rewrite Fx, Fy.
  assert (Lm : length (map2 op fx fy) = numel o) by (rewrite map2_length, Lx, Ly, sh_of_numel; lia).
  rewrite (view_last_ok _ _ _ Lm). eexists; split; [reflexivity|]. simpl.
  split; [reflexivity|]. split; [reflexivity|]. split; [exact Lm|].
  intros i Hi.
  (* the index inside the expansion shape *)
  assert (Hi' : valid_idx (sh_of o) (ix_of o i)).
  { destruct o; [|exact Hi]. simpl. repeat constructor. }
  assert (Rv : ravel (sh_of o) (ix_of o i) = ravel o i).
  { destruct o; [|reflexivity]. inversion Hi; subst. reflexivity. }
  assert (Bx : bidx (tshape x) (ix_of o i) = bidx (tshape x) i).
  { destruct o; [|reflexivity]. inversion Hi; subst. simpl in Lo.
    assert (tshape x = []) as -> by (apply length_zero_iff_nil; lia). reflexivity. }
  assert (By : bidx (tshape y) (ix_of o i) = bidx (tshape y) i).
  { destruct o; [|reflexivity]. inversion Hi; subst. simpl in Lo.
    assert (tshape y = []) as -> by (apply length_zero_iff_nil; lia). reflexivity. }
  split; [rewrite <- Bx; eapply bidx_valid; eauto|].
  split; [rewrite <- By; eapply bidx_valid; eauto|].
  unfold tget at 1. simpl. rewrite <- Rv.
  pose proof (ravel_lt _ _ Hi') as Hlt.
  rewrite map2_nth by lia.
  now rewrite (Nx _ Hi'), (Ny _ Hi'), Bx, By.
Qed.

(* the one-argument form and the unary operations keep the lshape and act item by item *)
Lemma broadcast_inputs1_spec (x : tensor A) : tdim x <> 0 ->
  broadcast_inputs1 x = Some (titems x, tshape x).
Proof. intros H. unfold broadcast_inputs1. apply Nat.eqb_neq in H. now rewrite H. Qed.

Lemma lie_unop_spec (op : A -> C) dout (x : tensor A) : wf x ->
  let r := lie_unop op dout x in
  tshape r = tshape x /\ tdim r = dout /\ wf r /\
  forall i, valid_idx (tshape x) i -> tget dC r i = op (tget dA x i).
Proof.
  intros W. simpl. split; [reflexivity|]. split; [reflexivity|]. split.
  - unfold wf. simpl. now rewrite map_length.
  - intros i Hi. unfold tget. simpl.
    pose proof (ravel_lt _ _ Hi). rewrite <- W in H.
    rewrite (nth_indep _ dC (op dA)) by (rewrite map_length; lia). apply map_nth.
Qed.
End Spec.

(* ---------------- __torch_function__ ---------------- *)
Lemma torch_function_handled name lt lts kws leaves : handled name = true -> lts ++ kws = lt :: nil \/ (exists r, lts ++ kws = lt :: r) ->
  torch_function (Some name) (Some leaves) lts kws =
  TFData (map (fun l => fst (wrap_leaf lt l)) leaves) (map (fun l => snd (wrap_leaf lt l)) leaves).
Proof.
  intros H E. unfold torch_function. rewrite H.
  destruct E as [E|[r E]]; rewrite E; now rewrite !map_map.
Qed.

Lemma wrap_leaf_plain lt shp :
  wrap_leaf lt (LPlain shp) = (LLie (Some lt) shp, negb (last_is shp (dimension lt))).
Proof. reflexivity. Qed.

Lemma torch_function_unhandled name leaves lts kws : handled name = false ->
  torch_function (Some name) (Some leaves) lts kws = TFData leaves (map (fun _ => false) leaves).
Proof. intros H. unfold torch_function. now rewrite H. Qed.

Lemma torch_function_old_kwargs_only name leaves kws : handled name = true ->
  torch_function_old (Some name) (Some leaves) [] kws = TFIndexError.
Proof. intros H. unfold torch_function_old, torch_function. now rewrite H. Qed.

(* ---------------- the concrete operations ---------------- *)
Section LieSpec.
Context {F : Type} {NF : Num F}.

Lemma gdim_pos g : gdim g <> 0. Proof. destruct g as [|[|[|]]]; simpl; lia. Qed.
Lemma adim_pos g : adim g <> 0. Proof. destruct g as [|[|[|]]]; simpl; lia. Qed.

(* the statement shared by all binary operations *)
Definition binop_spec {A B C} (dA : A) (dB : B) (dC : C) (op : A -> B -> C) (dout : nat)
           (x : tensor A) (y : tensor B) (res : option (tensor C)) : Prop :=
  match broadcast_shapes (tshape x) (tshape y) with
  | Some o =>
      exists r, res = Some r /\ tshape r = o /\ tdim r = dout /\ wf r /\
        forall i, valid_idx o i ->
          valid_idx (tshape x) (bidx (tshape x) i) /\ valid_idx (tshape y) (bidx (tshape y) i) /\
          tget dC r i = op (tget dA x (bidx (tshape x) i)) (tget dB y (bidx (tshape y) i))
  | None => res = None
  end.

Theorem lie_binop_meets_spec {A B C} (dA : A) (dB : B) (dC : C) (op : A -> B -> C) dout x y :
  wf x -> wf y -> tdim x <> 0 -> tdim y <> 0 ->
  binop_spec dA dB dC op dout x y (lie_binop dA dB op dout dout x y).
Proof. intros. unfold binop_spec. now apply lie_binop_spec. Qed.

Theorem lt_mul_spec g (x y : tensor (list F)) : wf x -> wf y -> tdim x = gdim g -> tdim y <> 0 ->
  binop_spec [] [] [] (g_mul g) (gdim g) x y (lt_mul g x y).
Proof.
  intros Wx Wy Dx Dy. unfold lt_mul. rewrite Dx. apply lie_binop_meets_spec; auto.
  rewrite Dx. apply gdim_pos.
Qed.

Theorem lt_act_spec g (x p : tensor (list F)) : wf x -> wf p -> tdim x <> 0 ->
  (tdim p = 3 -> binop_spec [] [] [] (g_act g) 3 x p (lt_act g x p)) /\
  (tdim p = 4 -> binop_spec [] [] [] (g_act4 g) 4 x p (lt_act g x p)) /\
  (tdim p <> 3 -> tdim p <> 4 -> lt_act g x p = None).
Proof.
  intros Wx Wp Dx. unfold lt_act. split; [|split].
  - intros E. rewrite E. simpl. apply lie_binop_meets_spec; auto. lia.
  - intros E. rewrite E. simpl. apply lie_binop_meets_spec; auto. lia.
  - intros N3 N4. apply Nat.eqb_neq in N3, N4. now rewrite N3, N4.
Qed.

Theorem lt_adj_spec g tr (x a : tensor (list F)) : wf x -> wf a -> tdim x <> 0 -> tdim a = adim g ->
  binop_spec [] [] [] (g_adj g tr) (adim g) x a (lt_adj g tr x a).
Proof.
  intros Wx Wa Dx Da. unfold lt_adj. rewrite Da. apply lie_binop_meets_spec; auto.
  rewrite Da. apply adim_pos.
Qed.

Theorem lt_unary_spec (op : list F -> list F) dout (x : tensor (list F)) : wf x ->
  let r := lie_unop op dout x in
  tshape r = tshape x /\ tdim r = dout /\ wf r /\
  forall i, valid_idx (tshape x) i -> tget [] r i = op (tget [] x i).
Proof. apply lie_unop_spec. Qed.
End LieSpec.

(* the decision of LieTensor.__torch_function__ *)
Theorem wrap_decision name :
  (handled name = true ->
     forall lt rest lts kws leaves, lts ++ kws = lt :: rest -> exists out warn,
        torch_function (Some name) (Some leaves) lts kws = TFData out warn /\
        length out = length leaves /\ length warn = length leaves /\
        forall n, n < length leaves ->
          match nth n leaves LOther with
          | LPlain shp => nth n out LOther = LLie (Some lt) shp /\
                          nth n warn false = negb (last_is shp (dimension lt))
          | l => nth n out LOther = l /\ nth n warn false = false
          end) /\
  (handled name = false ->
     forall leaves lts kws, torch_function (Some name) (Some leaves) lts kws = TFData leaves (map (fun _ => false) leaves)) /\
  (forall lts kws, torch_function (Some name) None lts kws = TFNone).
Proof.
  split; [|split].
  - intros H lt rest lts kws leaves E. rewrite (torch_function_handled name lt lts kws leaves H) by (right; eauto).
    eexists; eexists; split; [reflexivity|]. rewrite !map_length. split; [reflexivity|]. split; [reflexivity|].
    intros n Hn.
    rewrite (nth_indep (map (fun l => fst (wrap_leaf lt l)) leaves) LOther (fst (wrap_leaf lt LOther))) by (rewrite map_length; exact Hn).
    rewrite (nth_indep (map (fun l => snd (wrap_leaf lt l)) leaves) false (snd (wrap_leaf lt LOther))) by (rewrite map_length; exact Hn).
    rewrite (map_nth (fun l => fst (wrap_leaf lt l))), (map_nth (fun l => snd (wrap_leaf lt l))).
    destruct (nth n leaves LOther); simpl; auto.
  - intros H leaves lts kws. now apply torch_function_unhandled.
  - reflexivity.
Qed.

Open Scope string_scope.
Lemma handled_examples :
  handled "cat" = true /\ handled "__getitem__" = true /\ handled "index_select" = true /\
  handled "sum" = false /\ handled "abs" = false.
Proof. repeat split; reflexivity. Qed.
Close Scope string_scope.
