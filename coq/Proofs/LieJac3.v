(* C04 (part 3): RxSO3 and Sim3 — perturbation curve e |-> Exp(e d) @ X (with the scale component), its tangent,
   and the per-operation derivative statements for Mul, Inv, Act, AdjXa, AdjTXa, along arbitrary curves with that
   tangent and along the perturbation curve itself.  L = the matrix whose transpose the modelled backward uses:
     Mul (X) I, (Y) Adj(X);  Inv  -Adj(X^-1);  Act (X) act_jac(out), (p) s R;
     AdjXa (X) -ad(out), (a) Adj(X);  AdjTXa (X) Adj(X^-1) ad(a), (a) Adj(X^-1).
   Exp near 0 is the model's branch |sigma| <= eps, theta <= eps ([exp0_rxso3], [exp0_sim3], proved equal to the model). *)
From Coq Require Import Reals Lra Psatz List Nsatz.
From Coquelicot Require Import Coquelicot.
Import ListNotations.
From PV Require Import Base.Num Base.RTac Model.LieGroup Model.LieExp Proofs.LieGroup Proofs.LieExp Proofs.LieJac Proofs.LieJac2.
Local Open Scope R_scope.
#[local] Remove Hints NumQ NumZ : typeclass_instances.

(* ---------- scalar curves *)
Section PrimR.
Variables (s t : R -> R) (s' t' : R).
Hypotheses (Hs : is_derive s 0 s') (Ht : is_derive t 0 t').
Lemma dR_mul : dR (fun e => s e * t e) (s' * t 0 + s 0 * t').
Proof. unfold dR. der_abs. Qed.
Lemma dR_inv : s 0 <> 0 -> dR (fun e => 1 / s e) (- s' / (s 0 * s 0)).
Proof. intros Hn. unfold dR. auto_derive; [split; [eexists; eassumption | split; trivial] | use_derives; field; trivial]. Qed.
End PrimR.
Lemma dR_const (k : R) : dR (fun _ => k) 0.
Proof. apply @is_derive_const. Qed.

(* =================================== RxSO3 =================================== *)
Definition v4 := (vec3R * R)%type.
Definition v4zero : v4 := (vzero, 0).
Definition v4neg (a : v4) : v4 := (vneg (fst a), - snd a).
Definition v4add (a b : v4) : v4 := (vadd (fst a) (fst b), snd a + snd b).
Definition v4scale (k : R) (a : v4) : v4 := (vscale k (fst a), k * snd a).
(* ad(x) y : the matrix rxso3_adjM x of the model applied to y *)
Definition rxso3_ad (x y : v4) : v4 := (vcross (fst x) (fst y), 0).
Definition p4c (i : nat) (a : v4) : R := match i with S (S (S _)) => snd a | _ => vc i (fst a) end.
Definition rxc (i : nat) (X : rxso3R) : R := match i with S (S (S (S _))) => snd X | _ => qc i (fst X) end.
Ltac d5 i := destruct i as [|[|[|[|i]]]].
Definition rxzero : rxso3R := ((vzero, 0), 0).

Definition exp0_rxso3 (x : v4) : rxso3R := (exp0 (fst x), exp (snd x)).
Lemma exp0_rxso3_is_model (eps : R) (x : v4) : vnorm (fst x) <= eps -> rxso3_exp eps x = exp0_rxso3 x.
Proof. intros H. unfold rxso3_exp, exp0_rxso3. now rewrite exp0_is_model. Qed.
Definition pertRxSO3 (d : v4) (X : rxso3R) (e : R) : rxso3R := RxSO3_mul (exp0_rxso3 (v4scale e d)) X.
Definition tanRxSO3 (d : v4) (X : rxso3R) : rxso3R := (tanSO3 (fst d) (fst X), snd d * snd X).

Definition drx (X : R -> rxso3R) (X' : rxso3R) : Prop :=
  dq4 (fun e => fst (X e)) (fst X') /\ dR (fun e => snd (X e)) (snd X').
Definition dv4 (a : R -> v4) (a' : v4) : Prop :=
  dv3 (fun e => fst (a e)) (fst a') /\ dR (fun e => snd (a e)) (snd a').
Lemma drx_c X X' : drx X X' <-> forall i, is_derive (fun e => rxc i (X e)) 0 (rxc i X').
Proof.
  split.
  - intros [Hq Hs] i. destruct i as [|[|[|[|j]]]]; [apply (Hq 0%nat) | apply (Hq 1%nat) | apply (Hq 2%nat) | apply (Hq 3%nat) | apply Hs].
  - intros H. split.
    + intros i. d4 i; [apply (H 0%nat) | apply (H 1%nat) | apply (H 2%nat) | apply (H 3%nat)].
    + apply (H 4%nat).
Qed.
Lemma dv4_c a a' : dv4 a a' <-> forall i, is_derive (fun e => p4c i (a e)) 0 (p4c i a').
Proof.
  split.
  - intros [Hq Hs] i. destruct i as [|[|[|j]]]; [apply (Hq 0%nat) | apply (Hq 1%nat) | apply (Hq 2%nat) | apply Hs].
  - intros H. split.
    + intros i. d3 i; [apply (H 0%nat) | apply (H 1%nat) | apply (H 2%nat)].
    + apply (H 3%nat).
Qed.
Lemma drx_const X : drx (fun _ => X) rxzero.
Proof. split; [apply dq4_const | apply dR_const]. Qed.
Lemma dv4_const a : dv4 (fun _ => a) v4zero.
Proof. split; [apply dv3_const | apply dR_const]. Qed.
Lemma dv3_line a da : dv3 (fun e => vadd a (vscale e da)) da.
Proof. intros i. destruct a as [[a1 a2] a3], da as [[d1 d2] d3]. unfold vc. lie_unfold. d3 i; der_ring. Qed.
Lemma dv4_line a da : dv4 (fun e => v4add a (v4scale e da)) da.
Proof.
  split; unfold v4add, v4scale; cbn [fst snd]; [apply dv3_line|]. unfold dR. der_ring.
Qed.

Lemma pertRxSO3_0 d X : pertRxSO3 d X 0 = X.
Proof.
  destruct X as [[[[a b] c] w] s], d as [[[d1 d2] d3] sg]. unfold pertRxSO3, exp0_rxso3, v4scale, exp0. lie_unfold.
  rewrite !Rmult_0_l, exp_0. split_pairs; field.
Qed.
Lemma pertRxSO3_tan d X i : is_derive (fun e => rxc i (pertRxSO3 d X e)) 0 (rxc i (tanRxSO3 d X)).
Proof.
  destruct X as [[[[a b] c] w] s], d as [[[d1 d2] d3] sg].
  unfold pertRxSO3, tanRxSO3, tanSO3, exp0_rxso3, v4scale, exp0, rxc, qc. lie_unfold.
  d5 i; (auto_derive; [trivial|]); rewrite ?Rmult_0_l, ?exp_0; field.
Qed.
Lemma pertRxSO3_curve d X : drx (pertRxSO3 d X) (tanRxSO3 d (pertRxSO3 d X 0)).
Proof. rewrite pertRxSO3_0. apply drx_c. intros i. apply pertRxSO3_tan. Qed.

(* ---------- chain rule for the RxSO3 operations *)
Definition DRx_mul (X X' Y Y' : rxso3R) : rxso3R :=
  (qadd (SO3_mul (fst X') (fst Y)) (SO3_mul (fst X) (fst Y')), snd X' * snd Y + snd X * snd Y').
Lemma dRx_mul X X' Y Y' : drx X X' -> drx Y Y' -> drx (fun e => RxSO3_mul (X e) (Y e)) (DRx_mul (X 0) X' (Y 0) Y').
Proof.
  intros [HXq HXs] [HYq HYs]. split; unfold RxSO3_mul, DRx_mul; cbn [fst snd].
  - apply (dq4_mul (fun e => fst (X e)) _ (fun e => fst (Y e)) _ HXq HYq).
  - apply (dR_mul (fun e => snd (X e)) (fun e => snd (Y e)) _ _ HXs HYs).
Qed.
Definition DRx_inv (X X' : rxso3R) : rxso3R := (SO3_inv (fst X'), - snd X' / (snd X * snd X)).
Lemma dRx_inv X X' : snd (X 0) <> 0 -> drx X X' -> drx (fun e => RxSO3_inv (X e)) (DRx_inv (X 0) X').
Proof.
  intros Hn [Hq Hs]. split; unfold RxSO3_inv, DRx_inv; cbn [fst snd].
  - apply (dq4_inv _ _ Hq).
  - apply (dR_inv (fun e => snd (X e)) _ Hs Hn).
Qed.
Definition DRx_act (X X' : rxso3R) (p p' : vec3R) : vec3R :=
  vadd (vscale (snd X') (SO3_act (fst X) p)) (vscale (snd X) (vadd (dact (fst X) (fst X') p) (SO3_act (fst X) p'))).
Lemma dRx_act X X' p p' : drx X X' -> dv3 p p' -> dv3 (fun e => RxSO3_act (X e) (p e)) (DRx_act (X 0) X' (p 0) p').
Proof.
  intros [Hq Hs] Hp. unfold RxSO3_act, DRx_act.
  apply (dv3_scale (fun e => snd (X e)) _ (fun e => SO3_act (fst (X e)) (p e)) _ Hs).
  apply (dv3_act (fun e => fst (X e)) _ p _ Hq Hp).
Qed.
Definition DRx_Adj (X X' : rxso3R) (a a' : v4) : v4 :=
  (vadd (dAdj (fst X) (fst X') (fst a)) (mvmul (SO3_Adj (fst X)) (fst a')), snd a').
Lemma dRx_Adj X X' a a' : drx X X' -> dv4 a a' -> dv4 (fun e => RxSO3_AdjXa (X e) (a e)) (DRx_Adj (X 0) X' (a 0) a').
Proof.
  intros [Hq Hs] [Ha1 Ha2]. split; unfold RxSO3_AdjXa, DRx_Adj; cbn [fst snd]; [|exact Ha2].
  apply (dv3_Adj (fun e => fst (X e)) _ (fun e => fst (a e)) _ Hq Ha1).
Qed.
(* AdjT(X, a) = Adj(X^-1) a does not involve the scale: no hypothesis on it *)
Definition DRx_AdjT (X X' : rxso3R) (a a' : v4) : v4 :=
  (vadd (dAdj (SO3_inv (fst X)) (SO3_inv (fst X')) (fst a)) (mvmul (SO3_Adj (SO3_inv (fst X))) (fst a')), snd a').
Lemma dRx_AdjT X X' a a' : drx X X' -> dv4 a a' -> dv4 (fun e => RxSO3_AdjTXa (X e) (a e)) (DRx_AdjT (X 0) X' (a 0) a').
Proof.
  intros [Hq Hs] [Ha1 Ha2]. split; unfold RxSO3_AdjTXa, RxSO3_AdjXa, RxSO3_inv, DRx_AdjT; cbn [fst snd]; [|exact Ha2].
  apply (dv3_Adj (fun e => SO3_inv (fst (X e))) _ (fun e => fst (a e)) _ (dq4_inv _ _ Hq) Ha1).
Qed.

(* ---------- algebraic identities *)
Lemma Rx_mul_tan_X (X Y : rxso3R) d : DRx_mul X (tanRxSO3 d X) Y rxzero = tanRxSO3 d (RxSO3_mul X Y).
Proof.
  destruct X as [q s], Y as [r t], d as [phi sg]. unfold DRx_mul, tanRxSO3, RxSO3_mul, rxzero. cbn [fst snd].
  rewrite mul_0_r, qadd_0_r, tan_mul. apply pair_eq; [reflexivity | num_unfold; ring].
Qed.
Lemma Rx_mul_tan_Y (X Y : rxso3R) d : unitq (fst X) ->
  DRx_mul X rxzero Y (tanRxSO3 d Y) = tanRxSO3 (RxSO3_AdjXa X d) (RxSO3_mul X Y).
Proof.
  intros Hu. destruct X as [q s], Y as [r t], d as [phi sg]. unfold DRx_mul, tanRxSO3, RxSO3_AdjXa, RxSO3_mul, rxzero. cbn [fst snd] in *.
  rewrite mul_0_l, qadd_0_l, mul_tan by assumption. apply pair_eq; [reflexivity | num_unfold; ring].
Qed.
Lemma Rx_inv_tan (X : rxso3R) d : unitq (fst X) -> snd X <> 0 ->
  DRx_inv X (tanRxSO3 d X) = tanRxSO3 (v4neg (RxSO3_AdjXa (RxSO3_inv X) d)) (RxSO3_inv X).
Proof.
  intros Hu Hn. destruct X as [q s], d as [phi sg]. unfold DRx_inv, tanRxSO3, RxSO3_AdjXa, RxSO3_inv, v4neg. cbn [fst snd] in *.
  rewrite SO3_inv_tan by assumption. apply pair_eq; [reflexivity | num_unfold; field; exact Hn].
Qed.
Lemma Rx_act_tan (X : rxso3R) p d : unitq (fst X) ->
  DRx_act X (tanRxSO3 d X) p vzero = vadd (mvmul (skew (vneg (RxSO3_act X p))) (fst d)) (vscale (snd d) (RxSO3_act X p)).
Proof.
  intros Hu. destruct X as [q s], d as [phi sg]. unfold DRx_act, tanRxSO3, RxSO3_act. cbn [fst snd] in *.
  rewrite dact_tan, act_0, vadd_0_r by assumption. generalize (SO3_act q p). intros u. lie_ring.
Qed.
Lemma Rx_act_lin (X : rxso3R) p p' : unitq (fst X) ->
  DRx_act X rxzero p p' = mvmul (mscale3 (snd X) (SO3_Adj (fst X))) p'.
Proof.
  intros Hu. destruct X as [q s]. unfold DRx_act, rxzero. cbn [fst snd] in *.
  rewrite dact_0, vadd_0_l. rewrite <- (Adj_act q p' Hu). generalize (SO3_Adj q) (SO3_act q p). intros M u. lie_ring.
Qed.
Lemma Rx_Adj_tan (X : rxso3R) a d : unitq (fst X) ->
  DRx_Adj X (tanRxSO3 d X) a v4zero = v4neg (rxso3_ad (RxSO3_AdjXa X a) d).
Proof.
  intros Hu. destruct X as [q s], d as [phi sg], a as [pa sa].
  unfold DRx_Adj, tanRxSO3, RxSO3_AdjXa, rxso3_ad, v4neg, v4zero. cbn [fst snd] in *.
  rewrite dAdj_tan, mvmul_0, vadd_0_r by assumption.
  generalize (mvmul (SO3_Adj q) pa). intros u. apply pair_eq; [lie_ring | ring].
Qed.
Lemma Rx_Adj_lin (X : rxso3R) a a' : DRx_Adj X rxzero a a' = RxSO3_AdjXa X a'.
Proof.
  destruct X as [q s], a as [pa sa], a' as [pa' sa']. unfold DRx_Adj, RxSO3_AdjXa, rxzero. cbn [fst snd].
  now rewrite dAdj_0, vadd_0_l.
Qed.
Lemma Rx_AdjT_tan (X : rxso3R) a d : unitq (fst X) ->
  DRx_AdjT X (tanRxSO3 d X) a v4zero = RxSO3_AdjTXa X (rxso3_ad a d).
Proof.
  intros Hu. pose proof (unitq_inv _ Hu) as Hi. destruct X as [q s], d as [phi sg], a as [pa sa].
  unfold DRx_AdjT, tanRxSO3, RxSO3_AdjTXa, RxSO3_AdjXa, RxSO3_inv, rxso3_ad, v4zero. cbn [fst snd] in *.
  rewrite mvmul_0, vadd_0_r, SO3_inv_tan, dAdj_tan, !Adj_act, act_cross by assumption.
  generalize (SO3_act (SO3_inv q) phi) (SO3_act (SO3_inv q) pa). intros u v. apply pair_eq; [lie_ring | reflexivity].
Qed.
Lemma Rx_AdjT_lin (X : rxso3R) a a' : DRx_AdjT X rxzero a a' = RxSO3_AdjTXa X a'.
Proof.
  destruct X as [q s], a as [pa sa], a' as [pa' sa']. unfold DRx_AdjT, RxSO3_AdjTXa, RxSO3_AdjXa, RxSO3_inv, rxzero. cbn [fst snd].
  replace (SO3_inv (vzero, 0)) with ((vzero, 0) : quatR) by lie_ring. now rewrite dAdj_0, vadd_0_l.
Qed.

(* ---------- RxSO3: per-operation statements along arbitrary curves *)
Theorem RxSO3_mul_dX_curve (X : R -> rxso3R) (Y : rxso3R) d : drx X (tanRxSO3 d (X 0)) ->
  drx (fun e => RxSO3_mul (X e) Y) (tanRxSO3 d (RxSO3_mul (X 0) Y)).
Proof. intros HX. pose proof (dRx_mul _ _ _ _ HX (drx_const Y)) as H. cbv beta in H. now rewrite Rx_mul_tan_X in H. Qed.
Theorem RxSO3_mul_dY_curve (X : rxso3R) (Y : R -> rxso3R) d : unitq (fst X) -> drx Y (tanRxSO3 d (Y 0)) ->
  drx (fun e => RxSO3_mul X (Y e)) (tanRxSO3 (RxSO3_AdjXa X d) (RxSO3_mul X (Y 0))).
Proof. intros Hu HY. pose proof (dRx_mul _ _ _ _ (drx_const X) HY) as H. cbv beta in H. now rewrite Rx_mul_tan_Y in H. Qed.
Theorem RxSO3_inv_curve (X : R -> rxso3R) d : unitq (fst (X 0)) -> snd (X 0) <> 0 -> drx X (tanRxSO3 d (X 0)) ->
  drx (fun e => RxSO3_inv (X e)) (tanRxSO3 (v4neg (RxSO3_AdjXa (RxSO3_inv (X 0)) d)) (RxSO3_inv (X 0))).
Proof. intros Hu Hn HX. pose proof (dRx_inv _ _ Hn HX) as H. now rewrite Rx_inv_tan in H. Qed.
Theorem RxSO3_act_dX_curve (X : R -> rxso3R) p d : unitq (fst (X 0)) -> drx X (tanRxSO3 d (X 0)) ->
  dv3 (fun e => RxSO3_act (X e) p)
      (vadd (mvmul (skew (vneg (RxSO3_act (X 0) p))) (fst d)) (vscale (snd d) (RxSO3_act (X 0) p))).
Proof. intros Hu HX. pose proof (dRx_act _ _ _ _ HX (dv3_const p)) as H. cbv beta in H. now rewrite Rx_act_tan in H. Qed.
Theorem RxSO3_act_dp_curve (X : rxso3R) (p : R -> vec3R) p' : unitq (fst X) -> dv3 p p' ->
  dv3 (fun e => RxSO3_act X (p e)) (mvmul (mscale3 (snd X) (SO3_Adj (fst X))) p').
Proof. intros Hu Hp. pose proof (dRx_act _ _ _ _ (drx_const X) Hp) as H. cbv beta in H. now rewrite Rx_act_lin in H. Qed.
Theorem RxSO3_adj_dX_curve (X : R -> rxso3R) a d : unitq (fst (X 0)) -> drx X (tanRxSO3 d (X 0)) ->
  dv4 (fun e => RxSO3_AdjXa (X e) a) (v4neg (rxso3_ad (RxSO3_AdjXa (X 0) a) d)).
Proof. intros Hu HX. pose proof (dRx_Adj _ _ _ _ HX (dv4_const a)) as H. cbv beta in H. now rewrite Rx_Adj_tan in H. Qed.
Theorem RxSO3_adj_da_curve (X : rxso3R) (a : R -> v4) a' : dv4 a a' -> dv4 (fun e => RxSO3_AdjXa X (a e)) (RxSO3_AdjXa X a').
Proof. intros Ha. pose proof (dRx_Adj _ _ _ _ (drx_const X) Ha) as H. cbv beta in H. now rewrite Rx_Adj_lin in H. Qed.
Theorem RxSO3_adjT_dX_curve (X : R -> rxso3R) a d : unitq (fst (X 0)) -> drx X (tanRxSO3 d (X 0)) ->
  dv4 (fun e => RxSO3_AdjTXa (X e) a) (RxSO3_AdjTXa (X 0) (rxso3_ad a d)).
Proof. intros Hu HX. pose proof (dRx_AdjT _ _ _ _ HX (dv4_const a)) as H. cbv beta in H. now rewrite Rx_AdjT_tan in H. Qed.
Theorem RxSO3_adjT_da_curve (X : rxso3R) (a : R -> v4) a' : dv4 a a' -> dv4 (fun e => RxSO3_AdjTXa X (a e)) (RxSO3_AdjTXa X a').
Proof. intros Ha. pose proof (dRx_AdjT _ _ _ _ (drx_const X) Ha) as H. cbv beta in H. now rewrite Rx_AdjT_lin in H. Qed.

(* ---------- RxSO3: the same along the perturbation curve e |-> Exp(e d) @ X *)
Ltac on_pert c0 cur H := rewrite c0 in H; apply H; try assumption; rewrite <- c0 at 2; apply cur.
Lemma RxSO3_mul_dX (X Y : rxso3R) d e : RxSO3_mul (pertRxSO3 d X e) Y = pertRxSO3 d (RxSO3_mul X Y) e.
Proof. unfold pertRxSO3. apply RxSO3_mul_assoc. Qed.
Lemma RxSO3_mul_dY (X Y : rxso3R) d i : unitq (fst X) ->
  is_derive (fun e => rxc i (RxSO3_mul X (pertRxSO3 d Y e))) 0 (rxc i (tanRxSO3 (RxSO3_AdjXa X d) (RxSO3_mul X Y))).
Proof.
  intros Hu. pose proof (RxSO3_mul_dY_curve X (pertRxSO3 d Y) d Hu (pertRxSO3_curve d Y)) as H.
  rewrite pertRxSO3_0 in H. apply drx_c. exact H.
Qed.
Lemma RxSO3_inv_d (X : rxso3R) d i : unitq (fst X) -> snd X <> 0 ->
  is_derive (fun e => rxc i (RxSO3_inv (pertRxSO3 d X e))) 0
            (rxc i (tanRxSO3 (v4neg (RxSO3_AdjXa (RxSO3_inv X) d)) (RxSO3_inv X))).
Proof.
  intros Hu Hn. pose proof (RxSO3_inv_curve (pertRxSO3 d X) d) as H. apply drx_c.
  on_pert (pertRxSO3_0 d X) (pertRxSO3_curve d X) H.
Qed.
Lemma RxSO3_act_dX (X : rxso3R) p d i : unitq (fst X) ->
  is_derive (fun e => vc i (RxSO3_act (pertRxSO3 d X e) p)) 0
            (vc i (vadd (mvmul (skew (vneg (RxSO3_act X p))) (fst d)) (vscale (snd d) (RxSO3_act X p)))).
Proof.
  intros Hu. pose proof (RxSO3_act_dX_curve (pertRxSO3 d X) p d) as H. revert i. change (dv3 (fun e => RxSO3_act (pertRxSO3 d X e) p) (vadd (mvmul (skew (vneg (RxSO3_act X p))) (fst d)) (vscale (snd d) (RxSO3_act X p)))).
  on_pert (pertRxSO3_0 d X) (pertRxSO3_curve d X) H.
Qed.
Lemma RxSO3_act_dp (X : rxso3R) p dp i : unitq (fst X) ->
  is_derive (fun e => vc i (RxSO3_act X (vadd p (vscale e dp)))) 0 (vc i (mvmul (mscale3 (snd X) (SO3_Adj (fst X))) dp)).
Proof. intros Hu. apply (RxSO3_act_dp_curve X _ dp Hu (dv3_line p dp)). Qed.
Lemma RxSO3_adj_dX (X : rxso3R) a d i : unitq (fst X) ->
  is_derive (fun e => p4c i (RxSO3_AdjXa (pertRxSO3 d X e) a)) 0 (p4c i (v4neg (rxso3_ad (RxSO3_AdjXa X a) d))).
Proof.
  intros Hu. pose proof (RxSO3_adj_dX_curve (pertRxSO3 d X) a d) as H. apply dv4_c.
  on_pert (pertRxSO3_0 d X) (pertRxSO3_curve d X) H.
Qed.
Lemma RxSO3_adj_da (X : rxso3R) a da i :
  is_derive (fun e => p4c i (RxSO3_AdjXa X (v4add a (v4scale e da)))) 0 (p4c i (RxSO3_AdjXa X da)).
Proof. apply dv4_c. apply RxSO3_adj_da_curve. apply dv4_line. Qed.
Lemma RxSO3_adjT_dX (X : rxso3R) a d i : unitq (fst X) ->
  is_derive (fun e => p4c i (RxSO3_AdjTXa (pertRxSO3 d X e) a)) 0 (p4c i (RxSO3_AdjTXa X (rxso3_ad a d))).
Proof.
  intros Hu. pose proof (RxSO3_adjT_dX_curve (pertRxSO3 d X) a d) as H. apply dv4_c.
  on_pert (pertRxSO3_0 d X) (pertRxSO3_curve d X) H.
Qed.
Lemma RxSO3_adjT_da (X : rxso3R) a da i :
  is_derive (fun e => p4c i (RxSO3_AdjTXa X (v4add a (v4scale e da)))) 0 (p4c i (RxSO3_AdjTXa X da)).
Proof. apply dv4_c. apply RxSO3_adjT_da_curve. apply dv4_line. Qed.

(* =================================== Sim3 =================================== *)
Definition v7 := (v6 * R)%type.   (* ((tau, phi), sigma), the layout of Sim3_AdjXa *)
Definition v7zero : v7 := (v6zero, 0).
Definition v7neg (a : v7) : v7 := (v6neg (fst a), - snd a).
Definition v7add (a b : v7) : v7 := (v6add (fst a) (fst b), snd a + snd b).
Definition v7scale (k : R) (a : v7) : v7 := (v6scale k (fst a), k * snd a).
(* ad(x) y : the matrix sim3_adjM x of the model applied to y *)
Definition sim3_ad (x y : v7) : v7 :=
  let tx := fst (fst x) in let px := snd (fst x) in let sx := snd x in
  let ty := fst (fst y) in let py := snd (fst y) in let sy := snd y in
  ((vadd (vadd (vadd (vcross px ty) (vscale sx ty)) (vcross tx py)) (vscale sy (vneg tx)), vcross px py), 0).
Definition p7c (i : nat) (a : v7) : R := match i with S (S (S (S (S (S _))))) => snd a | _ => p6c i (fst a) end.
Definition sim3c (i : nat) (X : sim3R) : R :=
  match i with 0%nat => vx (fst X) | 1%nat => vy (fst X) | 2%nat => vz (fst X) | S (S (S j)) => rxc j (snd X) end.
Ltac d8 i := destruct i as [|[|[|[|[|[|[|[|i]]]]]]]].
Definition sim3zero : sim3R := (vzero, rxzero).

(* the model's rxso3_Ws on the branch |sigma| <= eps, theta <= eps *)
Definition Ws0 (phi : vec3R) : @mat3 R :=
  let K := skew phi in madd3 (madd3 (mscale3 (1/2) K) (mscale3 (1/6) (mmul3 K K))) (mscale3 1 mid3).
Definition exp0_sim3 (x : v7) : sim3R := (mvmul (Ws0 (snd (fst x))) (fst (fst x)), exp0_rxso3 (snd (fst x), snd x)).
Lemma exp0_sim3_is_model (eps : R) (x : v7) : Rabs (snd x) <= eps -> vnorm (snd (fst x)) <= eps ->
  sim3_exp eps (fst (fst x), (snd (fst x), snd x)) = exp0_sim3 x.
Proof.
  intros Hs Ht. destruct x as [[tau phi] sg]. cbn [fst snd] in *. unfold sim3_exp, exp0_sim3. cbn [fst snd].
  rewrite exp0_rxso3_is_model by exact Ht. apply pair_eq; [|reflexivity]. f_equal.
  unfold rxso3_Ws, rxso3_Ws_coef, Ws0. cbn [fst snd].
  replace (ltb eps (vnorm phi)) with false by (symmetry; cbn; now apply Rltb_false).
  replace (ltb eps (absF sg)) with false.
  2:{ symmetry. unfold absF. cbn. apply Rltb_false. unfold Rabs in Hs. unfold Rltb. destruct (Rlt_dec sg 0); destruct (Rcase_abs sg); lra. }
  cbv zeta. num_simpl. reflexivity.
Qed.
Definition pertSim3 (d : v7) (X : sim3R) (e : R) : sim3R := Sim3_mul (exp0_sim3 (v7scale e d)) X.
Definition tanSim3 (d : v7) (X : sim3R) : sim3R :=
  (vadd (vadd (fst (fst d)) (vcross (snd (fst d)) (fst X))) (vscale (snd d) (fst X)), tanRxSO3 (snd (fst d), snd d) (snd X)).

Definition dsim3 (X : R -> sim3R) (X' : sim3R) : Prop :=
  dv3 (fun e => fst (X e)) (fst X') /\ drx (fun e => snd (X e)) (snd X').
Definition dv7 (a : R -> v7) (a' : v7) : Prop :=
  dv6 (fun e => fst (a e)) (fst a') /\ dR (fun e => snd (a e)) (snd a').
Lemma dsim3_c X X' : dsim3 X X' <-> forall i, is_derive (fun e => sim3c i (X e)) 0 (sim3c i X').
Proof.
  split.
  - intros [Ht Hr] i. destruct i as [|[|[|j]]]; [apply (Ht 0%nat) | apply (Ht 1%nat) | apply (Ht 2%nat) |].
    apply (proj1 (drx_c _ _) Hr j).
  - intros H. split.
    + intros i. d3 i; [apply (H 0%nat) | apply (H 1%nat) | apply (H 2%nat)].
    + apply drx_c. intros j. apply (H (S (S (S j)))).
Qed.
Lemma dv7_c a a' : dv7 a a' <-> forall i, is_derive (fun e => p7c i (a e)) 0 (p7c i a').
Proof.
  split.
  - intros [H6 Hs] i. pose proof (proj1 (dv6_c _ _) H6) as H.
    destruct i as [|[|[|[|[|[|j]]]]]]; [apply (H 0%nat) | apply (H 1%nat) | apply (H 2%nat) | apply (H 3%nat) | apply (H 4%nat) | apply (H 5%nat) | apply Hs].
  - intros H. split.
    + apply dv6_c. intros i. d6 i; [apply (H 0%nat) | apply (H 1%nat) | apply (H 2%nat) | apply (H 3%nat) | apply (H 4%nat) | apply (H 5%nat)].
    + apply (H 6%nat).
Qed.
Lemma dsim3_const X : dsim3 (fun _ => X) sim3zero.
Proof. split; [apply dv3_const | apply drx_const]. Qed.
Lemma dv7_const a : dv7 (fun _ => a) v7zero.
Proof. split; [apply dv6_const | apply dR_const]. Qed.
Lemma dv7_line a da : dv7 (fun e => v7add a (v7scale e da)) da.
Proof.
  split; unfold v7add, v7scale; cbn [fst snd]; [apply dv6_line|]. unfold dR. der_ring.
Qed.

Lemma pertSim3_0 d X : pertSim3 d X 0 = X.
Proof.
  destruct X as [[[t1 t2] t3] [[[[a b] c] w] s]], d as [[[[u1 u2] u3] [[d1 d2] d3]] sg].
  unfold pertSim3, exp0_sim3, exp0_rxso3, v7scale, v6scale, Ws0, exp0. lie_unfold.
  rewrite !Rmult_0_l, exp_0. split_pairs; field.
Qed.
Lemma pertSim3_tan d X i : is_derive (fun e => sim3c i (pertSim3 d X e)) 0 (sim3c i (tanSim3 d X)).
Proof.
  destruct X as [[[t1 t2] t3] [[[[a b] c] w] s]], d as [[[[u1 u2] u3] [[d1 d2] d3]] sg].
  unfold pertSim3, tanSim3, tanRxSO3, tanSO3, exp0_sim3, exp0_rxso3, v7scale, v6scale, Ws0, exp0, sim3c, rxc, qc. lie_unfold.
  d8 i; (auto_derive; [trivial|]); rewrite ?Rmult_0_l, ?exp_0; field.
Qed.
Lemma pertSim3_curve d X : dsim3 (pertSim3 d X) (tanSim3 d (pertSim3 d X 0)).
Proof. rewrite pertSim3_0. apply dsim3_c. intros i. apply pertSim3_tan. Qed.

(* ---------- chain rule for the Sim3 operations *)
Definition DSim3_mul (X X' Y Y' : sim3R) : sim3R :=
  (vadd (fst X') (DRx_act (snd X) (snd X') (fst Y) (fst Y')), DRx_mul (snd X) (snd X') (snd Y) (snd Y')).
Lemma dSim3_mul X X' Y Y' : dsim3 X X' -> dsim3 Y Y' -> dsim3 (fun e => Sim3_mul (X e) (Y e)) (DSim3_mul (X 0) X' (Y 0) Y').
Proof.
  intros [HXt HXr] [HYt HYr]. split; unfold Sim3_mul, DSim3_mul; cbn [fst snd].
  - apply dv3_add; [exact HXt|]. apply (dRx_act (fun e => snd (X e)) _ (fun e => fst (Y e)) _ HXr HYt).
  - apply (dRx_mul (fun e => snd (X e)) _ (fun e => snd (Y e)) _ HXr HYr).
Qed.
Definition DSim3_inv (X X' : sim3R) : sim3R :=
  (vneg (DRx_act (RxSO3_inv (snd X)) (DRx_inv (snd X) (snd X')) (fst X) (fst X')), DRx_inv (snd X) (snd X')).
Lemma dSim3_inv X X' : snd (snd (X 0)) <> 0 -> dsim3 X X' -> dsim3 (fun e => Sim3_inv (X e)) (DSim3_inv (X 0) X').
Proof.
  intros Hn [Ht Hr]. pose proof (dRx_inv (fun e => snd (X e)) _ Hn Hr) as Hi. cbv beta in Hi.
  split; unfold Sim3_inv, DSim3_inv; cbn [fst snd]; [|exact Hi].
  apply dv3_neg. apply (dRx_act (fun e => RxSO3_inv (snd (X e))) _ (fun e => fst (X e)) _ Hi Ht).
Qed.
Definition DSim3_act (X X' : sim3R) (p p' : vec3R) : vec3R := vadd (fst X') (DRx_act (snd X) (snd X') p p').
Lemma dSim3_act X X' p p' : dsim3 X X' -> dv3 p p' -> dv3 (fun e => Sim3_act (X e) (p e)) (DSim3_act (X 0) X' (p 0) p').
Proof.
  intros [Ht Hr] Hp. unfold Sim3_act, DSim3_act. apply dv3_add; [exact Ht|].
  apply (dRx_act (fun e => snd (X e)) _ p _ Hr Hp).
Qed.
(* Sim3_AdjXa with projections instead of the destructuring let, [t]x R phi as a cross product *)
Definition Sim3_AdjP (X : sim3R) (a : v7) : v7 :=
  let R := SO3_Adj (fst (snd X)) in
  ((vadd (vadd (vscale (snd (snd X)) (mvmul R (fst (fst a)))) (vcross (fst X) (mvmul R (snd (fst a)))))
         (vscale (snd a) (vneg (fst X))), mvmul R (snd (fst a))), snd a).
Lemma mscale_mvmul (s : R) (M : @mat3 R) (a : vec3R) : mvmul (mscale3 s M) a = vscale s (mvmul M a).
Proof. lie_ring. Qed.
Lemma Sim3_AdjXa_P X a : Sim3_AdjXa X a = Sim3_AdjP X a.
Proof. destruct a as [[ta pa] sa]. unfold Sim3_AdjXa, Sim3_AdjP. cbn [fst snd]. now rewrite skew_mmul, mscale_mvmul. Qed.
Definition DSim3_Adj (X X' : sim3R) (a a' : v7) : v7 :=
  let t := fst X in let q := fst (snd X) in let s := snd (snd X) in
  let t' := fst X' in let q' := fst (snd X') in let s' := snd (snd X') in
  let R := SO3_Adj q in
  let dtau := vadd (dAdj q q' (fst (fst a))) (mvmul R (fst (fst a'))) in
  let dphi := vadd (dAdj q q' (snd (fst a))) (mvmul R (snd (fst a'))) in
  ((vadd (vadd (vadd (vscale s' (mvmul R (fst (fst a)))) (vscale s dtau))
               (vadd (vcross t' (mvmul R (snd (fst a)))) (vcross t dphi)))
         (vadd (vscale (snd a') (vneg t)) (vscale (snd a) (vneg t'))), dphi), snd a').
Lemma dSim3_Adj X X' a a' : dsim3 X X' -> dv7 a a' -> dv7 (fun e => Sim3_AdjXa (X e) (a e)) (DSim3_Adj (X 0) X' (a 0) a').
Proof.
  intros [Ht [Hq Hs]] [[Ha1 Ha2] Ha3]. cbv beta in *.
  pose proof (dv3_Adj _ _ _ _ Hq Ha1) as H1. pose proof (dv3_Adj _ _ _ _ Hq Ha2) as H2. cbv beta in H1, H2.
  pose proof (dv3_add _ _ _ _ (dv3_add _ _ _ _ (dv3_scale _ _ _ _ Hs H1) (dv3_cross _ _ _ _ Ht H2))
                              (dv3_scale _ _ _ _ Ha3 (dv3_neg _ _ Ht))) as H. cbv beta in H.
  split; [split|]; cbn [fst snd].
  - revert H. apply dv3_ext; [intros e; now rewrite Sim3_AdjXa_P | reflexivity].
  - revert H2. apply dv3_ext; [intros e; now rewrite Sim3_AdjXa_P | reflexivity].
  - revert Ha3. unfold dR. apply is_derive_ext. intros e. now rewrite Sim3_AdjXa_P.
Qed.

(* ---------- algebraic identities *)
Lemma Rx_act_lin' (X : rxso3R) p p' : DRx_act X rxzero p p' = vscale (snd X) (SO3_act (fst X) p').
Proof.
  destruct X as [q s]. unfold DRx_act, rxzero. cbn [fst snd]. rewrite dact_0, vadd_0_l.
  generalize (SO3_act q p) (SO3_act q p'). intros u v. lie_ring.
Qed.
Lemma Sim3_mul_tan_X (X Y : sim3R) d : unitq (fst (snd X)) ->
  DSim3_mul X (tanSim3 d X) Y sim3zero = tanSim3 d (Sim3_mul X Y).
Proof.
  intros Hu. destruct X as [t X2], Y as [u Y2], d as [[tau phi] sg].
  unfold DSim3_mul, tanSim3, Sim3_mul, sim3zero. cbn [fst snd] in *.
  rewrite Rx_mul_tan_X. apply pair_eq; [|reflexivity].
  pose proof (Rx_act_tan X2 u (phi, sg) Hu) as E. cbn [fst snd] in E. rewrite E.
  generalize (RxSO3_act X2 u). intros o. lie_ring.
Qed.
Lemma Sim3_mul_tan_Y (X Y : sim3R) d : unitq (fst (snd X)) ->
  DSim3_mul X sim3zero Y (tanSim3 d Y) = tanSim3 (Sim3_AdjXa X d) (Sim3_mul X Y).
Proof.
  intros Hu. rewrite Sim3_AdjXa_P. destruct X as [t [q s]], Y as [u Y2], d as [[tau phi] sg].
  unfold DSim3_mul, tanSim3, Sim3_AdjP, Sim3_mul, sim3zero. cbn [fst snd] in *.
  pose proof (Rx_mul_tan_Y (q, s) Y2 (phi, sg) Hu) as E. unfold RxSO3_AdjXa in E. cbn [fst snd] in E. rewrite E.
  apply pair_eq; [|reflexivity].
  rewrite Rx_act_lin'. unfold RxSO3_act. cbn [fst snd].
  rewrite !Adj_act, !act_add, act_cross, act_scale by assumption.
  generalize (SO3_act q tau) (SO3_act q phi) (SO3_act q u). intros a b c. lie_ring.
Qed.
Lemma Sim3_inv_tan (X : sim3R) d : unitq (fst (snd X)) -> snd (snd X) <> 0 ->
  DSim3_inv X (tanSim3 d X) = tanSim3 (v7neg (Sim3_AdjXa (Sim3_inv X) d)) (Sim3_inv X).
Proof.
  intros Hu Hn. pose proof (unitq_inv _ Hu) as Hi. rewrite Sim3_AdjXa_P.
  destruct X as [t [q s]], d as [[tau phi] sg].
  unfold DSim3_inv, tanSim3, Sim3_AdjP, Sim3_inv, v7neg, v6neg. cbn [fst snd] in *.
  pose proof (Rx_inv_tan (q, s) (phi, sg) Hu Hn) as E. unfold RxSO3_AdjXa, v4neg in E. cbn [fst snd] in E. rewrite E.
  apply pair_eq; [|reflexivity].
  unfold DRx_act, tanRxSO3, RxSO3_act, RxSO3_inv. cbn [fst snd].
  rewrite dact_tan, !Adj_act, !act_add, act_cross, act_scale by assumption.
  generalize (SO3_act (SO3_inv q) tau) (SO3_act (SO3_inv q) phi) (SO3_act (SO3_inv q) t) (one / s). intros a b c k. lie_ring.
Qed.
Lemma Sim3_act_tan (X : sim3R) p d : unitq (fst (snd X)) ->
  DSim3_act X (tanSim3 d X) p vzero =
  vadd (vadd (fst (fst d)) (mvmul (skew (vneg (Sim3_act X p))) (snd (fst d)))) (vscale (snd d) (Sim3_act X p)).
Proof.
  intros Hu. destruct X as [t X2], d as [[tau phi] sg]. unfold DSim3_act, tanSim3, Sim3_act. cbn [fst snd] in *.
  pose proof (Rx_act_tan X2 p (phi, sg) Hu) as E. cbn [fst snd] in E. rewrite E.
  generalize (RxSO3_act X2 p). intros o. lie_ring.
Qed.
Lemma Sim3_act_lin (X : sim3R) p p' : unitq (fst (snd X)) ->
  DSim3_act X sim3zero p p' = mvmul (mscale3 (snd (snd X)) (SO3_Adj (fst (snd X)))) p'.
Proof.
  intros Hu. destruct X as [t X2]. unfold DSim3_act, sim3zero. cbn [fst snd] in *.
  rewrite Rx_act_lin by assumption. apply vadd_0_l.
Qed.
Lemma Sim3_Adj_tan (X : sim3R) a d : unitq (fst (snd X)) ->
  DSim3_Adj X (tanSim3 d X) a v7zero = v7neg (sim3_ad (Sim3_AdjXa X a) d).
Proof.
  intros Hu. rewrite Sim3_AdjXa_P. destruct X as [t [q s]], d as [[tau phi] sg], a as [[ta pa] sa].
  unfold DSim3_Adj, tanSim3, tanRxSO3, Sim3_AdjP, sim3_ad, v7neg, v6neg, v7zero, v6zero. cbn [fst snd] in *. cbv zeta.
  rewrite !dAdj_tan, !mvmul_0, !vadd_0_r by assumption.
  generalize (mvmul (SO3_Adj q) ta) (mvmul (SO3_Adj q) pa). intros u v.
  apply pair_eq; [apply pair_eq; lie_ring | ring].
Qed.
Lemma Sim3_Adj_lin (X : sim3R) a a' : DSim3_Adj X sim3zero a a' = Sim3_AdjXa X a'.
Proof.
  rewrite Sim3_AdjXa_P. destruct X as [t [q s]], a as [[ta pa] sa], a' as [[ta' pa'] sa'].
  unfold DSim3_Adj, Sim3_AdjP, sim3zero, rxzero. cbn [fst snd]. cbv zeta.
  rewrite !dAdj_0, !vadd_0_l. generalize (SO3_Adj q). intros M.
  generalize (mvmul M ta) (mvmul M pa) (mvmul M ta') (mvmul M pa'). intros a b c d. 
  apply pair_eq; [apply pair_eq; [lie_ring | reflexivity] | reflexivity].
Qed.
(* Adj(X) is a Lie-algebra homomorphism *)
Lemma Sim3_Adj_ad (X : sim3R) x y : unitq (fst (snd X)) ->
  Sim3_AdjXa X (sim3_ad x y) = sim3_ad (Sim3_AdjXa X x) (Sim3_AdjXa X y).
Proof.
  intros Hu. rewrite !Sim3_AdjXa_P. destruct X as [t [q s]], x as [[x1 x2] x3], y as [[y1 y2] y3].
  unfold Sim3_AdjP, sim3_ad. cbn [fst snd] in *. cbv zeta.
  rewrite !Adj_act, !act_add, !act_cross, !act_scale, !act_neg by assumption.
  generalize (SO3_act q x1) (SO3_act q x2) (SO3_act q y1) (SO3_act q y2). intros a b c d.
  apply pair_eq; [apply pair_eq; lie_ring | ring].
Qed.
Lemma sim3_ad_neg_neg (x y : v7) : v7neg (sim3_ad x (v7neg y)) = sim3_ad x y.
Proof.
  destruct x as [[x1 x2] x3], y as [[y1 y2] y3]. unfold v7neg, v6neg, sim3_ad. cbn [fst snd]. cbv zeta.
  apply pair_eq; [apply pair_eq; lie_ring | ring].
Qed.

(* ---------- Sim3: per-operation statements along arbitrary curves *)
Theorem Sim3_mul_dX_curve (X : R -> sim3R) (Y : sim3R) d : unitq (fst (snd (X 0))) -> dsim3 X (tanSim3 d (X 0)) ->
  dsim3 (fun e => Sim3_mul (X e) Y) (tanSim3 d (Sim3_mul (X 0) Y)).
Proof. intros Hu HX. pose proof (dSim3_mul _ _ _ _ HX (dsim3_const Y)) as H. cbv beta in H. now rewrite Sim3_mul_tan_X in H. Qed.
Theorem Sim3_mul_dY_curve (X : sim3R) (Y : R -> sim3R) d : unitq (fst (snd X)) -> dsim3 Y (tanSim3 d (Y 0)) ->
  dsim3 (fun e => Sim3_mul X (Y e)) (tanSim3 (Sim3_AdjXa X d) (Sim3_mul X (Y 0))).
Proof. intros Hu HY. pose proof (dSim3_mul _ _ _ _ (dsim3_const X) HY) as H. cbv beta in H. now rewrite Sim3_mul_tan_Y in H. Qed.
Theorem Sim3_inv_curve (X : R -> sim3R) d : unitq (fst (snd (X 0))) -> snd (snd (X 0)) <> 0 -> dsim3 X (tanSim3 d (X 0)) ->
  dsim3 (fun e => Sim3_inv (X e)) (tanSim3 (v7neg (Sim3_AdjXa (Sim3_inv (X 0)) d)) (Sim3_inv (X 0))).
Proof. intros Hu Hn HX. pose proof (dSim3_inv _ _ Hn HX) as H. now rewrite Sim3_inv_tan in H. Qed.
Theorem Sim3_act_dX_curve (X : R -> sim3R) p d : unitq (fst (snd (X 0))) -> dsim3 X (tanSim3 d (X 0)) ->
  dv3 (fun e => Sim3_act (X e) p)
      (vadd (vadd (fst (fst d)) (mvmul (skew (vneg (Sim3_act (X 0) p))) (snd (fst d)))) (vscale (snd d) (Sim3_act (X 0) p))).
Proof. intros Hu HX. pose proof (dSim3_act _ _ _ _ HX (dv3_const p)) as H. cbv beta in H. now rewrite Sim3_act_tan in H. Qed.
Theorem Sim3_act_dp_curve (X : sim3R) (p : R -> vec3R) p' : unitq (fst (snd X)) -> dv3 p p' ->
  dv3 (fun e => Sim3_act X (p e)) (mvmul (mscale3 (snd (snd X)) (SO3_Adj (fst (snd X)))) p').
Proof. intros Hu Hp. pose proof (dSim3_act _ _ _ _ (dsim3_const X) Hp) as H. cbv beta in H. now rewrite Sim3_act_lin in H. Qed.
Theorem Sim3_adj_dX_curve (X : R -> sim3R) a d : unitq (fst (snd (X 0))) -> dsim3 X (tanSim3 d (X 0)) ->
  dv7 (fun e => Sim3_AdjXa (X e) a) (v7neg (sim3_ad (Sim3_AdjXa (X 0) a) d)).
Proof. intros Hu HX. pose proof (dSim3_Adj _ _ _ _ HX (dv7_const a)) as H. cbv beta in H. now rewrite Sim3_Adj_tan in H. Qed.
Theorem Sim3_adj_da_curve (X : sim3R) (a : R -> v7) a' : dv7 a a' -> dv7 (fun e => Sim3_AdjXa X (a e)) (Sim3_AdjXa X a').
Proof. intros Ha. pose proof (dSim3_Adj _ _ _ _ (dsim3_const X) Ha) as H. cbv beta in H. now rewrite Sim3_Adj_lin in H. Qed.
Theorem Sim3_adjT_dX_curve (X : R -> sim3R) a d : unitq (fst (snd (X 0))) -> snd (snd (X 0)) <> 0 -> dsim3 X (tanSim3 d (X 0)) ->
  dv7 (fun e => Sim3_AdjTXa (X e) a) (Sim3_AdjTXa (X 0) (sim3_ad a d)).
Proof.
  intros Hu Hn HX. assert (Hi : unitq (fst (snd (Sim3_inv (X 0))))) by (unfold Sim3_inv, RxSO3_inv; cbn [fst snd]; now apply unitq_inv).
  pose proof (Sim3_inv_curve X d Hu Hn HX) as HI.
  pose proof (Sim3_adj_dX_curve (fun e => Sim3_inv (X e)) a _ Hi HI) as H. cbv beta in H.
  unfold Sim3_AdjTXa. rewrite Sim3_Adj_ad by assumption. rewrite <- sim3_ad_neg_neg.
  exact H.
Qed.
Theorem Sim3_adjT_da_curve (X : sim3R) (a : R -> v7) a' : dv7 a a' -> dv7 (fun e => Sim3_AdjTXa X (a e)) (Sim3_AdjTXa X a').
Proof. intros Ha. apply (Sim3_adj_da_curve (Sim3_inv X) a a' Ha). Qed.

(* ---------- Sim3: the same along the perturbation curve e |-> Exp(e d) @ X *)
Lemma Sim3_mul_dX (X Y : sim3R) d i : unitq (fst (snd X)) ->
  is_derive (fun e => sim3c i (Sim3_mul (pertSim3 d X e) Y)) 0 (sim3c i (tanSim3 d (Sim3_mul X Y))).
Proof.
  intros Hu. pose proof (Sim3_mul_dX_curve (pertSim3 d X) Y d) as H. apply dsim3_c.
  on_pert (pertSim3_0 d X) (pertSim3_curve d X) H.
Qed.
Lemma Sim3_mul_dY (X Y : sim3R) d i : unitq (fst (snd X)) ->
  is_derive (fun e => sim3c i (Sim3_mul X (pertSim3 d Y e))) 0 (sim3c i (tanSim3 (Sim3_AdjXa X d) (Sim3_mul X Y))).
Proof.
  intros Hu. pose proof (Sim3_mul_dY_curve X (pertSim3 d Y) d Hu (pertSim3_curve d Y)) as H.
  rewrite pertSim3_0 in H. apply dsim3_c. exact H.
Qed.
Lemma Sim3_inv_d (X : sim3R) d i : unitq (fst (snd X)) -> snd (snd X) <> 0 ->
  is_derive (fun e => sim3c i (Sim3_inv (pertSim3 d X e))) 0
            (sim3c i (tanSim3 (v7neg (Sim3_AdjXa (Sim3_inv X) d)) (Sim3_inv X))).
Proof.
  intros Hu Hn. pose proof (Sim3_inv_curve (pertSim3 d X) d) as H. apply dsim3_c.
  on_pert (pertSim3_0 d X) (pertSim3_curve d X) H.
Qed.
Lemma Sim3_act_dX (X : sim3R) p d i : unitq (fst (snd X)) ->
  is_derive (fun e => vc i (Sim3_act (pertSim3 d X e) p)) 0
            (vc i (vadd (vadd (fst (fst d)) (mvmul (skew (vneg (Sim3_act X p))) (snd (fst d)))) (vscale (snd d) (Sim3_act X p)))).
Proof.
  intros Hu. pose proof (Sim3_act_dX_curve (pertSim3 d X) p d) as H. revert i.
  change (dv3 (fun e => Sim3_act (pertSim3 d X e) p)
              (vadd (vadd (fst (fst d)) (mvmul (skew (vneg (Sim3_act X p))) (snd (fst d)))) (vscale (snd d) (Sim3_act X p)))).
  on_pert (pertSim3_0 d X) (pertSim3_curve d X) H.
Qed.
Lemma Sim3_act_dp (X : sim3R) p dp i : unitq (fst (snd X)) ->
  is_derive (fun e => vc i (Sim3_act X (vadd p (vscale e dp)))) 0
            (vc i (mvmul (mscale3 (snd (snd X)) (SO3_Adj (fst (snd X)))) dp)).
Proof. intros Hu. apply (Sim3_act_dp_curve X _ dp Hu (dv3_line p dp)). Qed.
Lemma Sim3_adj_dX (X : sim3R) a d i : unitq (fst (snd X)) ->
  is_derive (fun e => p7c i (Sim3_AdjXa (pertSim3 d X e) a)) 0 (p7c i (v7neg (sim3_ad (Sim3_AdjXa X a) d))).
Proof.
  intros Hu. pose proof (Sim3_adj_dX_curve (pertSim3 d X) a d) as H. apply dv7_c.
  on_pert (pertSim3_0 d X) (pertSim3_curve d X) H.
Qed.
Lemma Sim3_adj_da (X : sim3R) a da i :
  is_derive (fun e => p7c i (Sim3_AdjXa X (v7add a (v7scale e da)))) 0 (p7c i (Sim3_AdjXa X da)).
Proof. apply dv7_c. apply Sim3_adj_da_curve. apply dv7_line. Qed.
Lemma Sim3_adjT_dX (X : sim3R) a d i : unitq (fst (snd X)) -> snd (snd X) <> 0 ->
  is_derive (fun e => p7c i (Sim3_AdjTXa (pertSim3 d X e) a)) 0 (p7c i (Sim3_AdjTXa X (sim3_ad a d))).
Proof.
  intros Hu Hn. pose proof (Sim3_adjT_dX_curve (pertSim3 d X) a d) as H. apply dv7_c.
  on_pert (pertSim3_0 d X) (pertSim3_curve d X) H.
Qed.
Lemma Sim3_adjT_da (X : sim3R) a da i :
  is_derive (fun e => p7c i (Sim3_AdjTXa X (v7add a (v7scale e da)))) 0 (p7c i (Sim3_AdjTXa X da)).
Proof. apply dv7_c. apply Sim3_adjT_da_curve. apply dv7_line. Qed.

(* the hypotheses are satisfiable: a non-trivial element with unit quaternion and non-zero scale *)
Example sim3_hyps_example : let X : sim3R := ((1, 2, 3), (((3/5, 0, 0), 4/5), 2)) in
  unitq (fst (snd X)) /\ snd (snd X) <> 0.
Proof. cbv zeta. cbn [fst snd]. split; [unfold unitq; lie_unfold; field | lra]. Qed.
