(* More proofs for property C07 (Model/Optim.v); continues Proofs/Optim.v.
   Part E (any number type): the column layout of the flattened Jacobian = the offsets of the split in
           update_parameter (the columns of trainable parameter i sit exactly where its slice of the step is).
   Part F (any number type): which corrector object is applied to which residual; __init__'s table;
           what [assemble] hands to the linear system.
   Part G (any / R): expand_weight for EVERY weight shape ws ++ [d; d]; several residuals. *)
From Coq Require Import ZArith Reals Lra Lia List Arith Bool.
Import ListNotations.
From PV Require Import Base.Num Base.Mat Model.LieGroup Model.Optim Proofs.Optim.

(* ---- list facts ---- *)
Lemma nth_firstn_lt {X} : forall n (l : list X) i d, i < n -> nth i (firstn n l) d = nth i l d.
Proof.
  induction n as [|n IH]; intros l i d Hi; [lia|].
  destruct l as [|x l]; [now destruct i|]. destruct i as [|i]; [reflexivity|]. cbn. apply IH. lia.
Qed.
Lemma nth_skipn_add {X} : forall n (l : list X) i d, nth i (skipn n l) d = nth (n + i) l d.
Proof.
  induction n as [|n IH]; intros l i d; [reflexivity|].
  destruct l as [|x l]; [now destruct i|]. cbn. apply IH.
Qed.

Lemma nth_map_lt {X Y} (f : X -> Y) : forall l t d d', t < length l -> nth t (map f l) d = f (nth t l d').
Proof.
  induction l as [|x l IH]; intros t d d' Ht; [cbn in Ht; lia|].
  destruct t as [|t]; [reflexivity|]. cbn in *. apply IH. lia.
Qed.

Section Layout.
Context {F : Type} {NF : Num F}.
Notation param := (@param F).
Notation pdflt := (@pdflt F).

Lemma nth_chunk w t (l : list F) c d : c < w -> nth c (chunk w t l) d = nth (t * w + c) l d.
Proof. intros Hc. unfold chunk. rewrite nth_firstn_lt by assumption. apply nth_skipn_add. Qed.

(* rows of torch.cat([...], 1) *)
Lemma hcat_length (A B : @mat F) : length (hcat A B) = Nat.min (length A) (length B).
Proof. apply zipw_length. Qed.
Lemma hcat_row n (A B : @mat F) r : length A = n -> length B = n -> r < n ->
  nth r (hcat A B) [] = nth r A [] ++ nth r B [].
Proof. intros HA HB Hr. unfold hcat. apply zipw_nth; lia. Qed.

Lemma fold_hcat_rows n : forall (Ms : list (@mat F)) (M0 : @mat F) r,
  length M0 = n -> Forall (fun M => length M = n) Ms -> r < n ->
  length (fold_left hcat Ms M0) = n /\
  nth r (fold_left hcat Ms M0) [] = nth r M0 [] ++ concat (map (fun M => nth r M []) Ms).
Proof.
  induction Ms as [|M Ms IH]; intros M0 r H0 HF Hr.
  - cbn. split; [assumption | now rewrite app_nil_r].
  - inversion HF as [|? ? HM HF']; subst. cbn [fold_left map concat].
    assert (HL : length (hcat M0 M) = length M0) by (rewrite hcat_length, HM; apply Nat.min_id).
    destruct (IH (hcat M0 M) r HL HF' Hr) as [H1 H2]. split; [assumption|].
    rewrite H2, (hcat_row (length M0)) by auto. now rewrite app_assoc.
Qed.
Lemma hcat_all_rows n (Ms : list (@mat F)) r : Ms <> [] -> Forall (fun M => length M = n) Ms -> r < n ->
  length (hcat_all Ms) = n /\ nth r (hcat_all Ms) [] = concat (map (fun M => nth r M []) Ms).
Proof.
  intros Hne HF Hr. destruct Ms as [|M Ms]; [congruence|]. inversion HF; subst. cbn [hcat_all map concat].
  now apply fold_hcat_rows.
Qed.

(* j.reshape(-1, c): n rows when j has n * c elements *)
Lemma reshape_cols_rows c n (l : list F) r : 0 < c -> length l = n * c ->
  length (reshape_cols c l) = n /\ (r < n -> nth r (reshape_cols c l) [] = chunk c r l).
Proof.
  intros Hc Hl. unfold reshape_cols. rewrite Hl, Nat.div_mul by lia. split; [apply chunks_length|].
  intros Hr. now apply chunks_nth.
Qed.

(* an entry of a concatenation of pieces of known lengths, addressed by (piece, position in the piece) *)
Lemma nth_concat_trainable (f : list F * param -> list F) d : forall (ps : list param) (Jr : list (list F)) i c,
  length Jr = length ps -> i < length ps -> preq (nth i ps pdflt) = true ->
  (forall k, k < length ps -> preq (nth k ps pdflt) = true ->
     length (f (nth k Jr [], nth k ps pdflt)) = pnumel (nth k ps pdflt)) ->
  c < pnumel (nth i ps pdflt) ->
  nth (toffset ps i + c) (concat (map f (filter (fun jp => preq (snd jp)) (combine Jr ps)))) d =
  nth c (f (nth i Jr [], nth i ps pdflt)) d.
Proof.
  induction ps as [|p ps IH]; intros Jr i c HL Hi Hp Hlen Hc; [cbn in Hi; lia|].
  destruct Jr as [|j Jr]; [cbn in HL; lia|]. cbn [combine filter snd].
  destruct i as [|i].
  - cbn [nth] in *. rewrite Hp. cbn [map concat]. unfold toffset. cbn [firstn filter map sumnat fold_right Nat.add].
    rewrite app_nth1; [reflexivity|]. specialize (Hlen 0 ltac:(cbn; lia) Hp). cbn [nth] in Hlen. lia.
  - cbn [nth] in Hp, Hc |- *.
    assert (Hlen' : forall k, k < length ps -> preq (nth k ps pdflt) = true ->
              length (f (nth k Jr [], nth k ps pdflt)) = pnumel (nth k ps pdflt)).
    { intros k Hk Hq. apply (Hlen (S k)); [cbn; lia | exact Hq]. }
    cbn in HL, Hi.
    destruct (preq p) eqn:Ep.
    + cbn [map concat]. unfold toffset. cbn [firstn filter]. rewrite Ep. cbn [map sumnat fold_right].
      fold (sumnat (map (@pnumel F) (filter (@preq F) (firstn i ps)))). fold (toffset ps i).
      pose proof (Hlen 0 ltac:(cbn; lia) Ep) as H0. cbn [nth] in H0.
      rewrite app_nth2 by lia. replace (pnumel p + toffset ps i + c - length (f (j, p))) with (toffset ps i + c) by lia.
      apply IH; auto; lia.
    + unfold toffset. cbn [firstn filter]. rewrite Ep. fold (toffset ps i). apply IH; auto; lia.
Qed.

Lemma filter_combine_nil (Jr : list (list F)) (ps : list param) : length Jr = length ps ->
  (exists k, k < length ps /\ preq (nth k ps pdflt) = true) ->
  filter (fun jp : list F * param => preq (snd jp)) (combine Jr ps) <> [].
Proof.
  revert Jr. induction ps as [|p ps IH]; intros Jr HL [k [Hk Hq]]; [cbn in Hk; lia|].
  destruct Jr as [|j Jr]; [cbn in HL; lia|]. cbn [combine filter snd].
  destruct (preq p) eqn:Ep; [discriminate|].
  destruct k as [|k]; [cbn in Hq; congruence|]. apply IH; [cbn in HL; lia|]. exists k. cbn in Hk, Hq. split; [lia | exact Hq].
Qed.

Lemma Forall_filter_combine (P : list F * param -> Prop) : forall (ps : list param) (Jr : list (list F)),
  length Jr = length ps ->
  (forall k, k < length ps -> preq (nth k ps pdflt) = true -> P (nth k Jr [], nth k ps pdflt)) ->
  Forall P (filter (fun jp => preq (snd jp)) (combine Jr ps)).
Proof.
  induction ps as [|p ps IH]; intros Jr HL H; destruct Jr as [|j Jr]; cbn in HL; try lia; [constructor|].
  cbn [combine filter snd].
  assert (H' : forall k, k < length ps -> preq (nth k ps pdflt) = true -> P (nth k Jr [], nth k ps pdflt))
    by (intros k Hk Hq; apply (H (S k)); [cbn; lia | exact Hq]).
  destruct (preq p) eqn:Ep.
  - constructor; [apply (H 0); [cbn; lia | exact Ep] | apply IH; [lia | exact H']].
  - apply IH; [lia | exact H'].
Qed.

Lemma sum_trainable_map (g : list F * param -> nat) : forall (ps : list param) (Jr : list (list F)),
  length Jr = length ps ->
  (forall k, k < length ps -> preq (nth k ps pdflt) = true -> g (nth k Jr [], nth k ps pdflt) = pnumel (nth k ps pdflt)) ->
  sumnat (map g (filter (fun jp => preq (snd jp)) (combine Jr ps))) = sumnat (map (@pnumel F) (filter (@preq F) ps)).
Proof.
  induction ps as [|p ps IH]; intros Jr HL H; destruct Jr as [|j Jr]; cbn in HL; try lia; [reflexivity|].
  cbn [combine filter snd].
  assert (H' : forall k, k < length ps -> preq (nth k ps pdflt) = true -> g (nth k Jr [], nth k ps pdflt) = pnumel (nth k ps pdflt))
    by (intros k Hk Hq; apply (H (S k)); [cbn; lia | exact Hq]).
  destruct (preq p) eqn:Ep.
  - cbn [map sumnat fold_right]. fold (sumnat (map g (filter (fun jp : list F * param => preq (snd jp)) (combine Jr ps)))).
    fold (sumnat (map (@pnumel F) (filter (@preq F) ps))).
    rewrite (IH Jr) by (auto; lia). f_equal. apply (H 0); [cbn; lia | exact Ep].
  - apply IH; [lia | exact H'].
Qed.
Lemma concat_length_sum {X} (ls : list (list X)) : length (concat ls) = sumnat (map (@length X) ls).
Proof. induction ls as [|l ls IH]; [reflexivity|]. cbn. rewrite app_length, IH. reflexivity. Qed.

(* MAIN: the flattened Jacobian of one residual with n elements.  Block i (flat, n x numel(p_i), what modjac
   returns) of a trainable parameter occupies the columns toffset ps i .. toffset ps i + numel(p_i) - 1: exactly
   the positions of the slice update_parameter hands to that parameter ([update_split]). *)
Lemma flatten_column_layout (Jr : list (list F)) (ps : list param) n :
  length Jr = length ps -> 0 < n ->
  (forall k, k < length ps -> preq (nth k ps pdflt) = true ->
     0 < pnumel (nth k ps pdflt) /\ length (nth k Jr []) = n * pnumel (nth k ps pdflt)) ->
  (exists k, k < length ps /\ preq (nth k ps pdflt) = true) ->
  wf n (sumnat (map (@pnumel F) (filter (@preq F) ps))) (flatten_row_jacobian Jr ps) /\
  forall r i c, r < n -> i < length ps -> preq (nth i ps pdflt) = true -> c < pnumel (nth i ps pdflt) ->
    mget (flatten_row_jacobian Jr ps) r (toffset ps i + c) =
    nth (r * pnumel (nth i ps pdflt) + c) (nth i Jr []) zero.
Proof.
  intros HL Hn Hblk Hex. unfold flatten_row_jacobian.
  set (tb := filter (fun jp : list F * param => preq (snd jp)) (combine Jr ps)).
  set (Ms := map (fun jp : list F * param => reshape_cols (pnumel (snd jp)) (fst jp)) tb).
  assert (Hne : Ms <> []).
  { subst Ms. intros E. apply map_eq_nil in E. revert E. now apply filter_combine_nil. }
  assert (HF : Forall (fun M : @mat F => length M = n) Ms).
  { subst Ms. apply Forall_map. subst tb. apply Forall_filter_combine; [assumption|].
    intros k Hk Hq. cbn [fst snd]. destruct (Hblk k Hk Hq) as [Hpos Hlen].
    now apply (reshape_cols_rows _ n _ 0). }
  assert (Hrow : forall r, r < n ->
     nth r (hcat_all Ms) [] = concat (map (fun jp : list F * param => chunk (pnumel (snd jp)) r (fst jp)) tb)).
  { intros r Hr. destruct (hcat_all_rows n Ms r Hne HF Hr) as [_ H]. rewrite H. subst Ms. rewrite map_map.
    f_equal. apply map_ext_in. intros [j p] Hin. cbn [fst snd].
    subst tb. apply filter_In in Hin. destruct Hin as [Hin Hq]. cbn [snd] in Hq.
    apply (In_nth _ _ ([], pdflt)) in Hin. destruct Hin as [k [Hk Ek]].
    rewrite combine_length, HL, Nat.min_id in Hk. rewrite combine_nth in Ek by assumption.
    inversion Ek; subst j p. destruct (Hblk k Hk Hq) as [Hpos Hlen].
    now apply (reshape_cols_rows _ n). }
  assert (Hchunk : forall r, r < n -> forall k, k < length ps -> preq (nth k ps pdflt) = true ->
     length ((fun jp : list F * param => chunk (pnumel (snd jp)) r (fst jp)) (nth k Jr [], nth k ps pdflt))
     = pnumel (nth k ps pdflt)).
  { intros r Hr k Hk Hq. cbn [fst snd]. destruct (Hblk k Hk Hq) as [Hpos Hlen]. apply chunk_len. rewrite Hlen. nia. }
  split.
  - destruct Hex as [k0 [Hk0 Hq0]]. destruct (Hblk k0 Hk0 Hq0) as [Hpos0 _].
    assert (Hm : 0 < sumnat (map (@pnumel F) (filter (@preq F) ps))).
    { clear - Hk0 Hq0 Hpos0. revert k0 Hk0 Hq0 Hpos0. induction ps as [|p ps IH]; intros k Hk Hq Hpos; [cbn in Hk; lia|].
      cbn [filter]. destruct k as [|k].
      - cbn [nth] in Hq, Hpos. rewrite Hq. cbn. unfold pnumel in *. lia.
      - cbn in Hk. specialize (IH k ltac:(lia) Hq Hpos). destruct (preq p); cbn; unfold sumnat in *; lia. }
    repeat split; try assumption.
    + destruct (hcat_all_rows n Ms 0 Hne HF Hn) as [H _]. exact H.
    + apply Forall_forall. intros row Hin. apply (In_nth _ _ []) in Hin. destruct Hin as [r [Hr <-]].
      destruct (hcat_all_rows n Ms 0 Hne HF Hn) as [HLn _]. rewrite HLn in Hr.
      rewrite (Hrow r Hr), concat_length_sum, map_map. subst tb.
      apply (sum_trainable_map (fun jp => length (chunk (pnumel (snd jp)) r (fst jp)))); [assumption|].
      intros k Hk Hq. exact (Hchunk r Hr k Hk Hq).
  - intros r i c Hr Hi Hq Hc. unfold mget. rewrite (Hrow r Hr). subst tb.
    rewrite (nth_concat_trainable _ zero ps Jr i c HL Hi Hq (Hchunk r Hr) Hc). cbn [fst snd].
    now apply nth_chunk.
Qed.

End Layout.

(* ===================================================================================== *)
(*  Part F: correctors and the assembly                                                   *)
(* ===================================================================================== *)
(* __init__: a corrector argument wins over the kernel; a kernel without corrector gives FastTriggs(kernel_i)
   (FastTriggs(Trivial()) for a None entry); None entries of a corrector list are Trivial() *)
Lemma init_correctors_spec kernel corrector :
  init_correctors kernel corrector =
  match corrector, kernel with
  | Some cs, _ => map (fun c => match c with Some c => CUser c | None => CTrivial end) cs
  | None, Some ks => map (fun k => CFast k) ks
  | None, None => [CTrivial]
  end.
Proof.
  unfold init_correctors. destruct corrector as [cs|], kernel as [ks|]; try reflexivity.
  - rewrite map_map. apply map_ext. now intros [c|].
  - rewrite map_map. apply map_ext. now intros [c|].
  - now rewrite map_map.
Qed.

Section Correctors.
Context {F : Type} {NF : Num F}.
Variable corr : cid -> @tensor F -> @mat F -> @tensor F * @mat F.
Notation apply_corr := (apply_corr corr).
Notation correct_from := (correct_from corr).

(* the corrector object the loop applies to residual t *)
Definition corr_of (cs : list cid) (t : nat) : cid :=
  if Nat.eqb (length cs) 1 then nth 0 cs CTrivial else nth t cs CTrivial.

Lemma correct_from_returns : forall (RJ : list (@tensor F * @mat F)) cs i,
  (length cs = 1 \/ i + length RJ <= length cs) ->
  correct_from cs i RJ =
  Some (map (fun trj => apply_corr (corr_of cs (fst trj)) (fst (snd trj)) (snd (snd trj)))
            (combine (seq i (length RJ)) RJ)).
Proof.
  induction RJ as [|[Rt Jt] RJ IH]; intros cs i H; [reflexivity|].
  cbn [Optim.correct_from length seq combine map fst snd].
  assert (Hc : (if Nat.eqb (length cs) 1 then nth_error cs 0 else nth_error cs i) = Some (corr_of cs i)).
  { unfold corr_of. destruct (Nat.eqb (length cs) 1) eqn:E.
    - apply Nat.eqb_eq in E. apply nth_error_nth'. lia.
    - apply Nat.eqb_neq in E. apply nth_error_nth'. cbn in H. lia. }
  rewrite Hc. rewrite IH by (cbn in H; lia). reflexivity.
Qed.
Lemma correct_from_raises : forall (RJ : list (@tensor F * @mat F)) cs i,
  length cs <> 1 -> i <= length cs -> length cs < i + length RJ -> correct_from cs i RJ = None.
Proof.
  induction RJ as [|[Rt Jt] RJ IH]; intros cs i H1 Hi H; [cbn in H; lia|].
  cbn [Optim.correct_from]. replace (Nat.eqb (length cs) 1) with false by (symmetry; now apply Nat.eqb_neq).
  destruct (nth_error cs i) as [c|] eqn:E; [|reflexivity].
  assert (i < length cs) by (apply nth_error_Some; congruence).
  rewrite IH; [reflexivity | assumption | lia | cbn in H; lia].
Qed.
(* the loop returns exactly when there is one corrector (it is then used for every residual) or at least as
   many correctors as residuals (IndexError otherwise - also for an empty corrector list) *)
Lemma correct_from_returns_iff (RJ : list (@tensor F * @mat F)) cs :
  (exists out, correct_from cs 0 RJ = Some out) <-> (length cs = 1 \/ length RJ <= length cs).
Proof.
  split.
  - intros [out H]. destruct (Nat.eq_dec (length cs) 1) as [E|E]; [now left|]. right.
    destruct (le_lt_dec (length RJ) (length cs)) as [Hle|Hlt]; [assumption|].
    rewrite correct_from_raises in H; [discriminate | assumption | lia | lia].
  - intros H. eexists. apply correct_from_returns. cbn. exact H.
Qed.
(* residual t (of n) is corrected by corrector[0] when there is one corrector, by corrector[t] otherwise *)
Lemma correct_from_items (RJ out : list (@tensor F * @mat F)) cs :
  correct_from cs 0 RJ = Some out ->
  length out = length RJ /\
  forall t dR dJ, t < length RJ ->
    nth t out (dR, dJ) = apply_corr (corr_of cs t) (fst (nth t RJ (dR, dJ))) (snd (nth t RJ (dR, dJ))).
Proof.
  intros H. assert (Hc : length cs = 1 \/ length RJ <= length cs) by (apply correct_from_returns_iff; eauto).
  rewrite correct_from_returns in H by (cbn; exact Hc). inversion H; subst out; clear H.
  split; [now rewrite map_length, combine_length, seq_length, Nat.min_id|].
  intros t dR dJ Ht.
  rewrite (nth_map_lt _ _ _ _ (0, (dR, dJ))) by (now rewrite combine_length, seq_length, Nat.min_id).
  rewrite combine_nth by (now rewrite seq_length). cbn [fst snd]. now rewrite seq_nth.
Qed.

(* what step() hands to the linear system: the residuals and the flattened (trainable-column) Jacobians, each
   pair passed through its corrector, then R = cat of the flattened residuals, J = cat of the Jacobians (rows),
   W = block_diag of the expanded weights (one weight tensor per residual, asserted) *)
Lemma assemble_spec (pb : @problem F) Rv W J :
  assemble corr pb = Some (Rv, W, J) ->
  exists RJ,
    correct_from (pbC pb) 0 (combine (pbR pb) (map (fun Jr => flatten_row_jacobian Jr (pbP pb)) (pbJ pb))) = Some RJ /\
    Rv = concat (map (fun rj => tdata (fst rj)) RJ) /\
    J = concat (map snd RJ) /\
    match pbW pb with
    | None => W = None
    | Some Ws => length RJ = length Ws /\
                 exists l, expand_weights (map fst RJ) Ws = Some l /\ W = Some (block_diag l)
    end.
Proof.
  unfold assemble, assemble_gen. destruct (correct_from _ _ _) as [RJ|]; [|discriminate].
  unfold normalize_RWJ. intros H. exists RJ. split; [reflexivity|].
  destruct (pbW pb) as [Ws|].
  - destruct (Nat.eqb (length (map fst RJ)) (length Ws)) eqn:E; [|discriminate].
    destruct (expand_weights (map fst RJ) Ws) as [l|] eqn:El; [|discriminate].
    inversion H; subst; clear H. rewrite map_map. repeat split; try reflexivity.
    + apply Nat.eqb_eq in E. now rewrite map_length in E.
    + exists l. auto.
  - inversion H; subst; clear H. rewrite map_map. repeat split; reflexivity.
Qed.
End Correctors.

(* ===================================================================================== *)
(*  Part G: the weight expansion for every weight shape; torch's broadcasting              *)
(* ===================================================================================== *)
Lemma prodn_rev (l : list nat) : prodn (rev l) = prodn l.
Proof.
  induction l as [|a l IH]; [reflexivity|]. cbn [rev]. rewrite prodn_app, IH. unfold prodn. cbn. lia.
Qed.

(* torch broadcasting of a weight with batch shape ws over a residual with batch shape rs (shapes aligned at
   the right, extents 1 of the weight stretched): flat index of the weight item that residual item t (row-major)
   meets.  Shapes reversed (last dimension first). *)
Fixpoint bidx (rrs rws : list nat) (t : nat) : nat :=
  match rrs, rws with
  | r :: rrs', w :: rws' => (if Nat.eqb w 1 then 0 else t mod r) + w * bidx rrs' rws' (t / r)
  | _, _ => 0
  end.
Definition torch_bcast_index (rs ws : list nat) (t : nat) : nat := bidx (rev rs) (rev ws) t.

Lemma bidx_prefix : forall (l rest : list nat) t, 0 < prodn l -> bidx (l ++ rest) l t = t mod prodn l.
Proof.
  induction l as [|a l IH]; intros rest t H.
  - cbn. destruct rest; reflexivity.
  - cbn [app bidx]. change (prodn (a :: l)) with (a * prodn l) in *.
    assert (a <> 0 /\ prodn l <> 0) as [Ha Hl] by nia.
    rewrite IH by lia. rewrite Nat.mod_mul_r by assumption.
    destruct (Nat.eqb a 1) eqn:E; [|reflexivity]. apply Nat.eqb_eq in E. subst a. now rewrite Nat.mod_1_r.
Qed.
(* for the documented shapes (weight batch shape = a suffix of the residual's) torch's broadcast index is
   t mod |suf| *)
Lemma torch_bcast_index_suffix (pre suf : list nat) t : 0 < prodn suf ->
  torch_bcast_index (pre ++ suf) suf t = t mod prodn suf.
Proof.
  intros H. unfold torch_bcast_index. rewrite rev_app_distr.
  rewrite bidx_prefix by (now rewrite prodn_rev). now rewrite prodn_rev.
Qed.

Section WeightsGeneral.
Context {F : Type} {NF : Num F}.

(* COMPLETE description of the expansion for a weight of shape ws ++ [d; d] against a residual of shape
   rs ++ [d] (any rs, ws): the |ws| weight matrices, the whole list repeated floor(|rs| / |ws|) times *)
Lemma expand_weight_general : forall (rs ws : list nat) (d : nat) (rdata wdata : list F),
  (0 < d)%nat -> (0 < prodn ws)%nat ->
  expand_weight {| tshape := rs ++ [d]; tdata := rdata |} {| tshape := ws ++ [d; d]; tdata := wdata |}
  = Some (map (fun t => wblock d wdata (t mod prodn ws)) (seq 0 ((prodn rs / prodn ws) * prodn ws))).
Proof.
  intros rs ws d rdata wdata Hd Hs.
  unfold expand_weight, last_dim, tnumel. cbn [tshape tdata].
  assert (R1 : rev (rs ++ [d]) = d :: rev rs) by (rewrite rev_app_distr; reflexivity).
  assert (R2 : rev (ws ++ [d; d]) = d :: d :: rev ws) by (rewrite rev_app_distr; reflexivity).
  rewrite R1, R2.
  assert (P2 : prodn (ws ++ [d; d]) = (prodn ws * (d * d))%nat) by (rewrite prodn_app; cbn; lia).
  assert (P1 : (prodn (rs ++ [d]) * d = prodn rs * (d * d))%nat) by (rewrite !prodn_app; cbn; lia).
  assert (Hpos : (0 < prodn ws * (d * d))%nat) by (apply Nat.mul_pos_pos; [|apply Nat.mul_pos_pos]; assumption).
  rewrite P1, P2.
  replace (Nat.eqb (prodn ws * (d * d)) 0) with false by (symmetry; apply Nat.eqb_neq; lia).
  rewrite Nat.div_mul_cancel_r by nia.
  destruct (Nat.eqb d 1) eqn:E1.
  - apply Nat.eqb_eq in E1. subst d.
    assert (R3 : rev ((ws ++ [1; 1]) ++ [1; 1])%nat = (1 :: 1 :: 1 :: 1 :: rev ws)%nat)
      by (rewrite !rev_app_distr; reflexivity).
    rewrite R3. cbn [Nat.mul Nat.add Nat.eqb].
    rewrite !prodn_app. cbn [prodn fold_right Nat.mul Nat.add].
    rewrite !Nat.mul_1_r, Nat.div_1_r.
    f_equal. rewrite <- concat_repeat_map by assumption. reflexivity.
  - rewrite R2. replace (Nat.eqb (d * d) 0) with false by (symmetry; apply Nat.eqb_neq; nia).
    rewrite P2, Nat.div_mul by nia.
    f_equal. rewrite <- concat_repeat_map by assumption. reflexivity.
Qed.
End WeightsGeneral.

(* ===================================================================================== *)
(*  Part H (R): several residuals, each with a weight of a documented shape                *)
(* ===================================================================================== *)
#[local] Remove Hints NumQ NumZ : typeclass_instances.

Lemma zipw_app {X Y Z} (f : X -> Y -> Z) : forall a a' b b', length a = length a' ->
  zipw f (a ++ b) (a' ++ b') = zipw f a a' ++ zipw f b b'.
Proof.
  induction a as [|x a IH]; intros [|y a'] b b' H; cbn in H; try lia; [reflexivity|].
  cbn. now rewrite IH by lia.
Qed.
Lemma Forall2_concat {X Y} (P : X -> Y -> Prop) : forall Ls Ls', Forall2 (Forall2 P) Ls Ls' ->
  Forall2 P (concat Ls) (concat Ls').
Proof. induction 1; cbn; [constructor | now apply Forall2_app]. Qed.
Lemma Forall2_len {X Y} (P : X -> Y -> Prop) : forall l l', Forall2 P l l' -> length l = length l'.
Proof. induction 1; cbn; auto. Qed.

Section MultiResidual.
Local Open Scope R_scope.

(* one residual tensor of shape pre ++ suf ++ [d] with its weight tensor of shape suf ++ [d; d] *)
Record wres := { w_pre : list nat; w_suf : list nat; w_d : nat; w_r : list R; w_w : list R }.
Definition wres_ok (s : wres) : Prop :=
  (0 < w_d s)%nat /\ (0 < prodn (w_suf s))%nat /\
  length (w_w s) = (prodn (w_suf s) * (w_d s * w_d s))%nat /\
  length (w_r s) = (prodn (w_pre s) * prodn (w_suf s) * w_d s)%nat.
Definition wres_R (s : wres) : @tensor R := {| tshape := w_pre s ++ w_suf s ++ [w_d s]; tdata := w_r s |}.
Definition wres_W (s : wres) : @tensor R := {| tshape := w_suf s ++ [w_d s; w_d s]; tdata := w_w s |}.
Definition wres_items (s : wres) : nat := (prodn (w_pre s) * prodn (w_suf s))%nat.
(* the weight matrix residual item t meets: weight item t mod |suf| (= torch's broadcast index) *)
Definition wres_blocks (s : wres) : list (@mat R) :=
  map (fun t => wblock (w_d s) (w_w s) (t mod prodn (w_suf s))) (seq 0 (wres_items s)).
Definition wres_chunks (s : wres) : list (list R) :=
  map (fun t => chunk (w_d s) t (w_r s)) (seq 0 (wres_items s)).
Definition wres_WR (s : wres) : list R :=
  concat (map (fun t => mapply (wblock (w_d s) (w_w s) (t mod prodn (w_suf s))) (chunk (w_d s) t (w_r s)))
              (seq 0 (wres_items s))).

Definition blk_sq (M : @mat R) (v : list R) : Prop := blk_ok M v /\ length M = length v.

Lemma wres_blocks_ok (s : wres) : wres_ok s -> Forall2 blk_sq (wres_blocks s) (wres_chunks s).
Proof.
  intros (Hd & Hs & Hw & Hr). unfold wres_blocks, wres_chunks, wres_items.
  set (N := (prodn (w_pre s) * prodn (w_suf s))%nat).
  assert (G : forall a n, (a + n <= N)%nat ->
     Forall2 blk_sq (map (fun t => wblock (w_d s) (w_w s) (t mod prodn (w_suf s))) (seq a n))
                    (map (fun t => chunk (w_d s) t (w_r s)) (seq a n))).
  { intros a n. revert a. induction n as [|n IH]; intros a Han; [constructor|].
    cbn [seq map]. constructor; [|apply IH; lia].
    assert (Hm : (a mod prodn (w_suf s) < prodn (w_suf s))%nat) by (apply Nat.mod_upper_bound; lia).
    destruct (wblock_shape (w_d s) (w_w s) (a mod prodn (w_suf s)) Hd) as (H1 & H2 & H3 & H4); [rewrite Hw; nia|].
    assert (HL : length (chunk (w_d s) a (w_r s)) = w_d s) by (apply chunk_length; rewrite Hr; subst N; nia).
    unfold blk_sq, blk_ok. rewrite H2, H3, HL. repeat split; assumption. }
  apply G. lia.
Qed.

Lemma expand_weights_specs (specs : list wres) : Forall wres_ok specs ->
  expand_weights (map wres_R specs) (map wres_W specs) = Some (concat (map wres_blocks specs)).
Proof.
  induction 1 as [|s specs (Hd & Hs & _) _ IH]; [reflexivity|].
  cbn [map concat]. apply expand_weights_app; [|exact IH].
  unfold wres_R, wres_W, wres_blocks, wres_items. now apply weight_expansion_is_broadcast.
Qed.

Lemma block_diag_rows : forall (Ms : list (@mat R)) (vs : list (list R)),
  Forall2 (fun M v => length M = length v) Ms vs -> length (block_diag Ms) = length (concat vs).
Proof.
  induction 1 as [|M v Ms vs H _ IH]; [reflexivity|].
  cbn [block_diag concat]. now rewrite !app_length, !map_length, H, IH.
Qed.

Lemma wres_chunks_concat (s : wres) : wres_ok s -> concat (wres_chunks s) = w_r s.
Proof.
  intros (_ & _ & _ & Hr). unfold wres_chunks. fold (chunks (w_d s) (wres_items s) (w_r s)).
  apply concat_chunks. exact Hr.
Qed.

(* normalize_RWJ on any number of residuals, each with a weight of a documented shape: R is the concatenation
   of the residual data, W the block-diagonal matrix of ALL expanded blocks in residual order, a square matrix
   of the size of R, and W @ R multiplies item t of residual k by weight item (t mod |suf_k|) of weight k *)
Lemma weighted_residuals_are_broadcast (specs : list wres) (Js : list (@mat R)) : Forall wres_ok specs ->
  let Rv := concat (map w_r specs) in
  let Ms := concat (map wres_blocks specs) in
  normalize_RWJ (map wres_R specs) (Some (map wres_W specs)) Js = Some (Rv, Some (block_diag Ms), concat Js) /\
  mapply (block_diag Ms) Rv = concat (map wres_WR specs) /\
  ((0 < length Rv)%nat -> wf (length Rv) (length Rv) (block_diag Ms)).
Proof.
  intros Hok Rv Ms.
  assert (HF2 : Forall2 blk_sq Ms (concat (map wres_chunks specs))).
  { subst Ms. apply Forall2_concat. induction Hok as [|s specs Hs _ IH]; cbn [map]; constructor; [|exact IH].
    now apply wres_blocks_ok. }
  assert (HRv : concat (concat (map wres_chunks specs)) = Rv).
  { subst Rv. clear HF2. induction Hok as [|s specs Hs _ IH]; [reflexivity|].
    cbn [map concat]. rewrite concat_app, IH. now rewrite wres_chunks_concat. }
  assert (HB : Forall2 blk_ok Ms (concat (map wres_chunks specs))).
  { clear - HF2. induction HF2 as [|M v Ms' vs [H _] _ IH]; constructor; assumption. }
  assert (HLn : Forall2 (fun (M : @mat R) (v : list R) => length M = length v) Ms (concat (map wres_chunks specs))).
  { clear - HF2. induction HF2 as [|M v Ms' vs [_ H] _ IH]; constructor; assumption. }
  destruct (mapply_block_diag _ _ HB) as (Hm & Hrows & Hcols). rewrite HRv in Hm, Hcols.
  split; [|split].
  - unfold normalize_RWJ. rewrite !map_length, Nat.eqb_refl. rewrite (expand_weights_specs specs Hok).
    rewrite map_map. reflexivity.
  - rewrite Hm. subst Ms. clear - Hok. induction Hok as [|s specs Hs _ IH]; [reflexivity|].
    cbn [map concat]. rewrite zipw_app, concat_app, IH.
    + f_equal. unfold wres_blocks, wres_chunks, wres_WR. now rewrite zipw_map_seq.
    + unfold wres_blocks, wres_chunks. now rewrite !map_length.
  - intros HN. pose proof (block_diag_rows _ _ HLn) as HR. rewrite HRv in HR.
    repeat split; try assumption. now rewrite <- Hcols in Hrows.
Qed.
End MultiResidual.

(* ===================================================================================== *)
(*  Part I: where the expansion stops being torch's broadcast                              *)
(* ===================================================================================== *)
Section InnerSingleton.
Local Open Scope R_scope.
(* residual of shape 2*2*1, weight of shape 2*1*1*1 = (w0, w1): broadcastable in torch's sense (the weight has
   extent 1 where the residual has 2), not one of the documented forms.  torch's broadcast pairs the residual
   items (0,0), (0,1), (1,0), (1,1) with w0, w0, w1, w1; normalize_RWJ builds diag(w0, w1, w0, w1) *)
Lemma inner_singleton_blocks (w0 w1 : R) (rdata : list R) :
  expand_weight {| tshape := [2; 2; 1]%nat; tdata := rdata |} {| tshape := [2; 1; 1; 1]%nat; tdata := [w0; w1] |}
  = Some [[[w0]]; [[w1]]; [[w0]]; [[w1]]] /\
  map (fun t => wblock 1 [w0; w1] (torch_bcast_index [2; 2]%nat [2; 1]%nat t)) (seq 0 4) = [[[w0]]; [[w0]]; [[w1]]; [[w1]]].
Proof. split; reflexivity. Qed.
End InnerSingleton.
