(* C20 (strengthening):
   - ReduceToBason: continual() after ANY history = no documented cause held at any step so far (iff form);
   - the driver loops make EXACTLY as many controller steps as the index of the first step with a cause
     (or the whole stream if there is none), and end in the state of that prefix;
   - reset does NOT restore the initial state: patience_count is kept.  It is overwritten by the first step
     iff that (batched) loss is not all-negative; with a negative first loss a used controller can stop at
     once where a fresh one continues (witness reachable by stepping the controller itself). *)
From Coq Require Import ZArith List Bool Arith Lia Reals Lra.
Import ListNotations.
From PV Require Import Base.Num Model.Controller Proofs.Controller.

Section Generic2.
Context {F : Type} {NF : Num F}.

(* ---------------- ReduceToBason: iff form over the whole history *)
Corollary rtb_cont_iff (c : rtb_cfg) ls :
  rtb_cont (rtb_run c ls) = forallb (fun k => negb (rtb_cause c (firstn k ls))) (seq 1 (length ls)).
Proof.
  induction ls as [|l ls IH] using rev_ind; [reflexivity|].
  rewrite rtb_cont_spec, IH, app_length. cbn [length]. rewrite Nat.add_1_r, seq_S, forallb_app.
  cbn [forallb]. rewrite andb_true_r. f_equal.
  - apply forallb_ext_in'. intros k Hk. apply in_seq in Hk. rewrite firstn_app.
    replace (k - length ls) with 0 by lia. cbn [firstn]. now rewrite app_nil_r.
  - replace (1 + length ls) with (length (ls ++ [l])) by (rewrite app_length; cbn; lia).
    now rewrite firstn_all.
Qed.

(* ---------------- driver loops: exact number of steps *)
Lemma firstn_snoc_nth {A} (l : list A) n d : n < length l -> firstn (S n) l = firstn n l ++ [nth n l d].
Proof.
  revert n. induction l as [|a l IH]; intros n H; [cbn in H; lia|].
  destruct n as [|n]; [reflexivity|]. cbn [firstn nth app]. f_equal. apply IH. cbn in H. lia.
Qed.

Lemma drive_sop_exact (c : sop_cfg) : forall ins s n s', drive_sop c s ins = (n, s') ->
  s' = fold_left (sop_step c) (firstn n ins) s /\ n <= length ins /\
  (forall k, k < n -> sop_cont (fold_left (sop_step c) (firstn k ins) s) = true) /\
  (n < length ins -> sop_cont s' = false).
Proof.
  induction ins as [|i ins IH]; intros s n s' H; cbn [drive_sop] in H.
  - inversion H; subst. cbn. repeat split; auto; lia.
  - destruct (sop_cont s) eqn:Hs.
    + destruct (drive_sop c (sop_step c s i) ins) as [m t] eqn:E. inversion H; subst.
      destruct (IH _ _ _ E) as (H1 & H2 & H3 & H4). cbn [firstn fold_left length]. repeat split; auto; try lia.
      * intros k Hk. destruct k as [|k]; [exact Hs|]. cbn [firstn fold_left]. apply H3. lia.
      * intros Hn. apply H4. lia.
    + inversion H; subst. cbn. repeat split; auto; try lia.
Qed.
Lemma drive_rtb_exact (c : rtb_cfg) : forall ls s n s', drive_rtb c s ls = (n, s') ->
  s' = fold_left (rtb_step c) (firstn n ls) s /\ n <= length ls /\
  (forall k, k < n -> rtb_cont (fold_left (rtb_step c) (firstn k ls) s) = true) /\
  (n < length ls -> rtb_cont s' = false).
Proof.
  induction ls as [|i ls IH]; intros s n s' H; cbn [drive_rtb] in H.
  - inversion H; subst. cbn. repeat split; auto; lia.
  - destruct (rtb_cont s) eqn:Hs.
    + destruct (drive_rtb c (rtb_step c s i) ls) as [m t] eqn:E. inversion H; subst.
      destruct (IH _ _ _ E) as (H1 & H2 & H3 & H4). cbn [firstn fold_left length]. repeat split; auto; try lia.
      * intros k Hk. destruct k as [|k]; [exact Hs|]. cbn [firstn fold_left]. apply H3. lia.
      * intros Hn. apply H4. lia.
    + inversion H; subst. cbn. repeat split; auto; try lia.
Qed.

(* scheduler.optimize from a fresh StopOnPlateau: the loop makes n steps where n is the first step at which a
   documented cause holds (no cause at steps 1..n-1; a cause at step n unless the stream ended) *)
Theorem sop_driver_exact (c : sop_cfg) ins :
  let n := fst (drive_sop c sop_init ins) in
  snd (drive_sop c sop_init ins) = sop_run c (firstn n ins) /\ n <= length ins /\
  (forall k, 1 <= k < n -> sop_cause c (firstn k ins) = false) /\
  (n < length ins -> 1 <= n /\ sop_cause c (firstn n ins) = true).
Proof.
  destruct (drive_sop c sop_init ins) as [n s'] eqn:E. cbn [fst snd].
  destruct (drive_sop_exact c ins sop_init n s' E) as (H1 & H2 & H3 & H4).
  split; [exact H1|]. split; [exact H2|].
  assert (Hno : forall k, k < n -> forall j, 1 <= j <= k -> sop_cause c (firstn j ins) = false).
  { intros k Hk j Hj. specialize (H3 k Hk). fold (sop_run c (firstn k ins)) in H3. rewrite sop_cont_iff in H3.
    rewrite forallb_forall in H3. rewrite firstn_length_le in H3 by lia.
    specialize (H3 j ltac:(apply in_seq; lia)). apply negb_true_iff in H3.
    rewrite firstn_firstn in H3. replace (Nat.min j k) with j in H3 by lia. exact H3. }
  split.
  - intros k Hk. apply (Hno k); lia.
  - intros Hn. specialize (H4 Hn). rewrite H1 in H4. fold (sop_run c (firstn n ins)) in H4.
    destruct n as [|m]; [cbn in H4; discriminate|]. split; [lia|].
    rewrite (firstn_snoc_nth ins m {| in_last := zero; in_loss := zero; in_reject := 0 |}) in H4 by lia.
    rewrite sop_cont_spec in H4. rewrite <- (firstn_snoc_nth ins m) in H4 by lia.
    specialize (H3 m ltac:(lia)). fold (sop_run c (firstn m ins)) in H3. rewrite H3 in H4. cbn in H4.
    now apply negb_false_iff in H4.
Qed.
Theorem rtb_driver_exact (c : rtb_cfg) ls :
  let n := fst (drive_rtb c rtb_init ls) in
  snd (drive_rtb c rtb_init ls) = rtb_run c (firstn n ls) /\ n <= length ls /\
  (forall k, 1 <= k < n -> rtb_cause c (firstn k ls) = false) /\
  (n < length ls -> 1 <= n /\ rtb_cause c (firstn n ls) = true).
Proof.
  destruct (drive_rtb c rtb_init ls) as [n s'] eqn:E. cbn [fst snd].
  destruct (drive_rtb_exact c ls rtb_init n s' E) as (H1 & H2 & H3 & H4).
  split; [exact H1|]. split; [exact H2|].
  assert (Hno : forall k, k < n -> forall j, 1 <= j <= k -> rtb_cause c (firstn j ls) = false).
  { intros k Hk j Hj. specialize (H3 k Hk). change (rtb_cont (rtb_run c (firstn k ls)) = true) in H3.
    rewrite rtb_cont_iff in H3.
    rewrite forallb_forall in H3. rewrite firstn_length_le in H3 by lia.
    specialize (H3 j ltac:(apply in_seq; lia)). apply negb_true_iff in H3.
    rewrite firstn_firstn in H3. replace (Nat.min j k) with j in H3 by lia. exact H3. }
  split.
  - intros k Hk. apply (Hno k); lia.
  - intros Hn. specialize (H4 Hn). rewrite H1 in H4. change (rtb_cont (rtb_run c (firstn n ls)) = false) in H4.
    destruct n as [|m]; [cbn in H4; discriminate|]. split; [lia|].
    rewrite (firstn_snoc_nth ls m []) in H4 by lia.
    rewrite rtb_cont_spec in H4. rewrite <- (firstn_snoc_nth ls m) in H4 by lia.
    specialize (H3 m ltac:(lia)). change (rtb_cont (rtb_run c (firstn m ls)) = true) in H3. rewrite H3 in H4. cbn in H4.
    now apply negb_false_iff in H4.
Qed.

(* ---------------- reset *)
Lemma rtb_reset_is_init_iff (s : rtb_state (F:=F)) : rtb_reset_old s = rtb_init <-> rtb_pc s = 0%Z.
Proof.
  unfold rtb_reset_old, rtb_init. split; intros H; [now inversion H | now rewrite H].
Qed.
(* the first step after a reset: the stale counter survives exactly when the loss counts as a failure against +inf *)
Lemma rtb_first_step_after_reset (c : rtb_cfg) (s : rtb_state (F:=F)) l :
  rtb_pc (rtb_step c (rtb_reset_old s) l) = (if all_rel None l (rtb_dec c) then rtb_pc s + 1 else 0)%Z.
Proof. reflexivity. Qed.
End Generic2.

(* over R: an all-negative first (batched) loss counts as a failure against last = +inf *)
Lemma rtb_first_fail_R (l : list R) (d : R) : Forall (fun x => (x < 0)%R) l -> all_rel (F:=R) None l d = true.
Proof.
  induction 1 as [|x r Hx _ IH]; [reflexivity|]. cbn [all_rel rel_lt]. rewrite IH.
  replace (ltb x zero) with true; [reflexivity|]. symmetry. cbn. now apply Rltb_true.
Qed.
(* general form of the defect: after reset, an all-negative first loss continues the OLD patience count, so a
   controller whose stale count is >= patience - 1 stops at once *)
Theorem rtb_reset_negative_loss_stops (c : rtb_cfg (F:=R)) (s : rtb_state) (l : list R) :
  Forall (fun x => (x < 0)%R) l -> (rtb_patience c <= rtb_pc s + 1)%Z ->
  rtb_pc (rtb_step c (rtb_reset_old s) l) = (rtb_pc s + 1)%Z /\ rtb_cont (rtb_step c (rtb_reset_old s) l) = false.
Proof.
  intros Hl Hp. unfold rtb_step, rtb_reset_old. cbn [rtb_pc rtb_cont rtb_last rtb_steps].
  rewrite (rtb_first_fail_R l (rtb_dec c) Hl). split; [reflexivity|].
  replace (rtb_patience c <=? rtb_pc s + 1)%Z with true by (symmetry; now apply Z.leb_le).
  now rewrite !orb_true_r.
Qed.
(* ... whereas a fresh controller with patience > 1, budget > 1 and tol below the loss continues *)
Theorem rtb_fresh_negative_loss_continues (c : rtb_cfg (F:=R)) (x : R) :
  (x < 0)%R -> (rtb_tol c <= x)%R -> (1 < rtb_max c)%Z -> (1 < rtb_patience c)%Z ->
  rtb_cont (rtb_step c rtb_init [x]) = true.
Proof.
  intros Hx Ht Hm Hp. unfold rtb_step, rtb_init. cbn [rtb_pc rtb_cont rtb_last rtb_steps forallb all_rel rel_lt].
  replace (ltb x (rtb_tol c)) with false by (symmetry; cbn; now apply Rltb_false).
  replace (ltb x zero) with true by (symmetry; cbn; now apply Rltb_true). cbn [andb orb].
  replace (rtb_max c <=? 0 + 1)%Z with false by (symmetry; apply Z.leb_gt; lia).
  replace (rtb_patience c <=? 0 + 1)%Z with false by (symmetry; apply Z.leb_gt; lia). reflexivity.
Qed.
(* concrete reachable witness (number type Z, executed): steps = 100, patience = 2, decreasing = 1, tol = -100.
   Three steps with loss 5 stop the controller on patience; reset; the next loss is -4:
   the used controller stops at its first step, a fresh one continues. *)
Definition wit_cfg : rtb_cfg (F:=Z) := {| rtb_max := 100; rtb_patience := 2; rtb_dec := 1%Z; rtb_tol := (-100)%Z |}.
Lemma rtb_reset_witness :
  let used := rtb_reset_old (rtb_run wit_cfg [[5]; [5]; [5]]%Z) in
  rtb_cont (rtb_run wit_cfg [[5]; [5]; [5]]%Z) = false /\ rtb_cont used = true /\
  rtb_cont (rtb_step wit_cfg used [(-4)%Z]) = false /\ rtb_cont (rtb_step wit_cfg rtb_init [(-4)%Z]) = true.
Proof. vm_compute. repeat split. Qed.
