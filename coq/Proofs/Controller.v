(* C20: stopping controllers stop exactly on their documented conditions, within budget. *)
From Coq Require Import ZArith List Bool Arith Lia Reals Lra.
Import ListNotations.
From PV Require Import Base.Num Model.Controller.

(* number of trailing [true]s of a list = "consecutive failures ending at the last step" *)
Fixpoint lead (fs : list bool) : Z :=
  match fs with true :: r => (lead r + 1)%Z | _ => 0%Z end.
Definition trailing (fs : list bool) : Z := lead (rev fs).
Lemma trailing_snoc fs f : trailing (fs ++ [f]) = (if f then trailing fs + 1 else 0)%Z.
Proof. unfold trailing. rewrite rev_app_distr. cbn. destruct f; reflexivity. Qed.

Lemma forallb_ext_in' {A} (f g : A -> bool) l : (forall x, In x l -> f x = g x) -> forallb f l = forallb g l.
Proof.
  induction l as [|a l IH]; intros H; [reflexivity|]. cbn. rewrite (H a (or_introl eq_refl)), IH; [reflexivity|].
  intros x Hx. apply H. now right.
Qed.

Section Generic.
Context {F : Type} {NF : Num F}.

(* ================= StopOnPlateau ================= *)
Definition sop_run (c : sop_cfg) (ins : list sop_in) : sop_state := fold_left (sop_step c) ins sop_init.

(* the documented causes at the last step of a non-empty history *)
Definition sop_cause (c : sop_cfg) (ins : list sop_in) : bool :=
  (sop_max c <=? Z.of_nat (length ins))%Z
  || (sop_patience c <=? trailing (map (sop_fail c) ins))%Z
  || negb (Nat.eqb (in_reject (last ins {| in_last := zero; in_loss := zero; in_reject := 0 |})) 0).

Lemma sop_run_snoc c ins i : sop_run c (ins ++ [i]) = sop_step c (sop_run c ins) i.
Proof. unfold sop_run. now rewrite fold_left_app. Qed.

Lemma sop_counts c ins :
  sop_steps (sop_run c ins) = Z.of_nat (length ins) /\
  sop_pc (sop_run c ins) = trailing (map (sop_fail c) ins).
Proof.
  induction ins as [|i ins IH] using rev_ind; [split; reflexivity|].
  rewrite sop_run_snoc. destruct IH as [H1 H2]. unfold sop_step. cbn [sop_steps sop_pc].
  rewrite app_length, map_app. cbn [length map]. rewrite trailing_snoc, H1, H2. split; [lia|].
  destruct (sop_fail c i); reflexivity.
Qed.

(* continual() after a history = no documented cause occurred at any step so far *)
Theorem sop_cont_spec c ins i :
  sop_cont (sop_run c (ins ++ [i])) = sop_cont (sop_run c ins) && negb (sop_cause c (ins ++ [i])).
Proof.
  rewrite sop_run_snoc. unfold sop_step at 1. cbn [sop_cont]. f_equal. f_equal.
  destruct (sop_counts c ins) as [H1 H2]. rewrite H1, H2. unfold sop_cause.
  rewrite app_length, map_app, last_last. cbn [length map]. rewrite trailing_snoc.
  replace (Z.of_nat (length ins + 1)) with (Z.of_nat (length ins) + 1)%Z by lia.
  destruct (sop_fail c i); reflexivity.
Qed.
Corollary sop_cont_iff c ins :
  sop_cont (sop_run c ins) = forallb (fun k => negb (sop_cause c (firstn k ins))) (seq 1 (length ins)).
Proof.
  induction ins as [|i ins IH] using rev_ind; [reflexivity|].
  rewrite sop_cont_spec, IH, app_length. cbn [length]. rewrite Nat.add_1_r, seq_S, forallb_app.
  cbn [forallb]. rewrite andb_true_r. f_equal.
  - apply forallb_ext_in'. intros k Hk. apply in_seq in Hk. rewrite firstn_app.
    replace (k - length ins) with 0 by lia. cbn [firstn]. now rewrite app_nil_r.
  - replace (1 + length ins) with (length (ins ++ [i])) by (rewrite app_length; cbn; lia).
    now rewrite firstn_all.
Qed.
Theorem sop_stays_false c ins more : sop_cont (sop_run c ins) = false -> sop_cont (sop_run c (ins ++ more)) = false.
Proof.
  revert ins. induction more as [|i more IH]; intros ins H; [now rewrite app_nil_r|].
  replace (ins ++ i :: more) with ((ins ++ [i]) ++ more) by (now rewrite <- app_assoc).
  apply IH. rewrite sop_cont_spec, H. reflexivity.
Qed.

(* ================= ReduceToBason ================= *)
Definition rtb_run_from (c : rtb_cfg) (s : rtb_state) (ls : list (list F)) : rtb_state := fold_left (rtb_step c) ls s.
Definition rtb_run c ls := rtb_run_from c rtb_init ls.
Definition prev_loss (ls : list (list F)) : option (list F) :=
  match rev ls with [] => None | l :: _ => Some l end.
(* failure flags: step k compares with the previous loss (none before the first) *)
Fixpoint rtb_fails (c : rtb_cfg) (prev : option (list F)) (ls : list (list F)) : list bool :=
  match ls with [] => [] | l :: r => all_rel prev l (rtb_dec c) :: rtb_fails c (Some l) r end.
Definition rtb_cause (c : rtb_cfg) (ls : list (list F)) : bool :=
  forallb (fun x => ltb x (rtb_tol c)) (last ls [])
  || (rtb_max c <=? Z.of_nat (length ls))%Z
  || (rtb_patience c <=? trailing (rtb_fails c None ls))%Z.

Lemma rtb_fails_snoc c : forall ls prev l,
  rtb_fails c prev (ls ++ [l]) = rtb_fails c prev ls ++ [all_rel (match rev ls with [] => prev | x :: _ => Some x end) l (rtb_dec c)].
Proof.
  induction ls as [|x ls IH]; intros prev l; [reflexivity|].
  cbn [app rtb_fails]. rewrite IH. cbn [rev]. f_equal. f_equal. f_equal.
  destruct (rev ls) eqn:E; reflexivity.
Qed.
Lemma rtb_run_snoc c ls l : rtb_run c (ls ++ [l]) = rtb_step c (rtb_run c ls) l.
Proof. unfold rtb_run, rtb_run_from. now rewrite fold_left_app. Qed.
Lemma rtb_counts c ls :
  rtb_steps (rtb_run c ls) = Z.of_nat (length ls) /\
  rtb_pc (rtb_run c ls) = trailing (rtb_fails c None ls) /\
  rtb_last (rtb_run c ls) = prev_loss ls.
Proof.
  induction ls as [|l ls IH] using rev_ind; [repeat split; reflexivity|].
  rewrite rtb_run_snoc. destruct IH as (H1 & H2 & H3). unfold rtb_step. cbn [rtb_steps rtb_pc rtb_last].
  rewrite app_length, rtb_fails_snoc, trailing_snoc, H1, H2, H3. cbn [length]. split; [lia|]. split.
  - unfold prev_loss. destruct (rev ls); reflexivity.
  - unfold prev_loss. now rewrite rev_app_distr.
Qed.
Theorem rtb_cont_spec c ls l :
  rtb_cont (rtb_run c (ls ++ [l])) = rtb_cont (rtb_run c ls) && negb (rtb_cause c (ls ++ [l])).
Proof.
  rewrite rtb_run_snoc. unfold rtb_step at 1. cbn [rtb_cont]. f_equal. f_equal.
  destruct (rtb_counts c ls) as (H1 & H2 & H3). rewrite H1, H2, H3. unfold rtb_cause.
  rewrite app_length, last_last, rtb_fails_snoc, trailing_snoc. cbn [length].
  replace (Z.of_nat (length ls + 1)) with (Z.of_nat (length ls) + 1)%Z by lia.
  unfold prev_loss. destruct (rev ls); reflexivity.
Qed.
Theorem rtb_stays_false c ls more : rtb_cont (rtb_run c ls) = false -> rtb_cont (rtb_run c (ls ++ more)) = false.
Proof.
  revert ls. induction more as [|l more IH]; intros ls H; [now rewrite app_nil_r|].
  replace (ls ++ l :: more) with ((ls ++ [l]) ++ more) by (now rewrite <- app_assoc).
  apply IH. rewrite rtb_cont_spec, H. reflexivity.
Qed.

(* reset: if the first loss after the reset does not count as a failure against +inf (true for
   every loss >= 0, see rtb_first_not_fail_R), the behaviour equals a fresh controller's *)
Theorem rtb_reset_old_equiv_fresh c (s : rtb_state (F:=F)) l more :
  all_rel None l (rtb_dec c) = false ->
  rtb_run_from c (rtb_reset_old s) (l :: more) = rtb_run_from c rtb_init (l :: more).
Proof.
  intros H. unfold rtb_run_from. cbn [fold_left]. f_equal.
  unfold rtb_step, rtb_reset_old, rtb_init. cbn [rtb_steps rtb_pc rtb_last rtb_cont]. now rewrite H.
Qed.
(* reset as coded now restores the initial state, whatever the history and whatever follows *)
Theorem rtb_reset_is_init (s : rtb_state (F:=F)) : rtb_reset s = rtb_init.
Proof. reflexivity. Qed.
Theorem rtb_reset_equiv_fresh c (s : rtb_state (F:=F)) ls :
  rtb_run_from c (rtb_reset s) ls = rtb_run_from c rtb_init ls.
Proof. reflexivity. Qed.
Lemma rtb_reset_observable (s : rtb_state (F:=F)) : rtb_cont (rtb_reset s) = true /\ rtb_steps (rtb_reset s) = 0%Z /\ rtb_last (rtb_reset s) = None.
Proof. repeat split. Qed.

(* ================= driver loops ================= *)
Lemma drive_sop_bound c : forall ins s, sop_cont s = true ->
  (Z.of_nat (fst (drive_sop c s ins)) <= Z.max 1 (sop_max c - sop_steps s))%Z.
Proof.
  induction ins as [|i ins IH]; intros s Hs; cbn [drive_sop fst]; [lia|]. rewrite Hs.
  destruct (drive_sop c (sop_step c s i) ins) as [n s'] eqn:E. cbn [fst].
  destruct (sop_cont (sop_step c s i)) eqn:Hc.
  - specialize (IH (sop_step c s i) Hc). rewrite E in IH. cbn [fst] in IH.
    unfold sop_step in Hc, IH. cbn [sop_cont sop_steps] in Hc, IH. rewrite Hs in Hc. cbn in Hc.
    apply negb_true_iff in Hc. apply orb_false_iff in Hc as [Hc _]. apply orb_false_iff in Hc as [Hc _].
    apply Z.leb_gt in Hc. lia.
  - destruct ins as [|j ins']; cbn [drive_sop] in E; [inversion E; lia|]. rewrite Hc in E. inversion E. lia.
Qed.
Theorem sop_driver_bound c ins : (Z.of_nat (fst (drive_sop c sop_init ins)) <= Z.max 1 (sop_max c))%Z.
Proof. pose proof (drive_sop_bound c ins sop_init eq_refl) as H. cbn [sop_steps sop_init] in H. lia. Qed.

Lemma drive_rtb_bound c : forall ls s, rtb_cont s = true ->
  (Z.of_nat (fst (drive_rtb c s ls)) <= Z.max 1 (rtb_max c - rtb_steps s))%Z.
Proof.
  induction ls as [|l ls IH]; intros s Hs; cbn [drive_rtb fst]; [lia|]. rewrite Hs.
  destruct (drive_rtb c (rtb_step c s l) ls) as [n s'] eqn:E. cbn [fst].
  destruct (rtb_cont (rtb_step c s l)) eqn:Hc.
  - specialize (IH (rtb_step c s l) Hc). rewrite E in IH. cbn [fst] in IH.
    unfold rtb_step in Hc, IH. cbn [rtb_cont rtb_steps] in Hc, IH. rewrite Hs in Hc. cbn in Hc.
    apply negb_true_iff in Hc. apply orb_false_iff in Hc as [Hc _]. apply orb_false_iff in Hc as [_ Hc].
    apply Z.leb_gt in Hc. lia.
  - destruct ls as [|j ls']; cbn [drive_rtb] in E; [inversion E; lia|]. rewrite Hc in E. inversion E. lia.
Qed.
(* ICP.forward / MPC.forward: reset, then loop *)
Theorem rtb_driver_bound c s ls : (Z.of_nat (fst (drive_rtb c (rtb_reset s) ls)) <= Z.max 1 (rtb_max c))%Z.
Proof. pose proof (drive_rtb_bound c ls (rtb_reset s) eq_refl) as H. cbn [rtb_steps rtb_reset rtb_init] in H. lia. Qed.
(* MPC: the constructor lowers the budget by one, so with steps >= 1 the loop makes <= steps steps *)
Theorem mpc_driver_bound c s ls : (1 <= rtb_max c)%Z ->
  (Z.of_nat (fst (drive_rtb (mpc_cfg c) (rtb_reset s) ls)) <= rtb_max c)%Z.
Proof. intros H. pose proof (rtb_driver_bound (mpc_cfg c) s ls) as B. cbn [rtb_max mpc_cfg] in B. lia. Qed.
End Generic.

(* over R: a non-negative (batched, non-empty) first loss never counts as a failure against +inf *)
Lemma rtb_first_not_fail_R (l : list R) (d : R) :
  l <> [] -> Forall (fun x => (0 <= x)%R) l -> all_rel (F:=R) None l d = false.
Proof.
  destruct l as [|x r]; [congruence|]. intros _ H. inversion H; subst. cbn [all_rel rel_lt].
  replace (ltb x zero) with false; [reflexivity|]. symmetry. cbn. apply Rltb_false. assumption.
Qed.

(* non-vacuity: a concrete run stops on patience at step 4 *)
Example sop_example :
  map (fun k => sop_cont (sop_run (F:=Z) {| sop_max := 10; sop_patience := 2; sop_dec := 1%Z |}
     (firstn k [ {| in_last := 9; in_loss := 5; in_reject := 0 |}; {| in_last := 5; in_loss := 5; in_reject := 0 |};
                 {| in_last := 5; in_loss := 2; in_reject := 0 |}; {| in_last := 2; in_loss := 2; in_reject := 0 |};
                 {| in_last := 2; in_loss := 2; in_reject := 0 |} ]%Z))) [1;2;3;4;5]
  = [true; true; true; true; false].
Proof. vm_compute. reflexivity. Qed.
