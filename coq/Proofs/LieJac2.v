(* C04 (part 2): SE3 — the remaining per-operation derivative lemmas (Mul w.r.t. Y, Inv, AdjXa, AdjTXa) and
   SO3 AdjTXa.  Same statement shape as Proofs/LieJac.v:  along the perturbation curve e |-> Exp(e d) @ X
   ([pertSE3]) the op f has, at e = 0, the derivative  T_{f X}(L d)  (group-valued f; [tanSE3]) resp.  L d
   (algebra-valued f), with L the matrix whose transpose the modelled backward multiplies by:
     Mul (Y)    L = Adj(X)                     mul_bwd
     Inv        L = -Adj(X^-1)                 inv_bwd   (Y = output)
     AdjXa (X)  L = -ad(out)   (a)  L = Adj(X) adj_bwd
     AdjTXa (X) L = Adj(X^-1) ad(a)   (a)  L = Adj(X^-1)     adjT_bwd (repaired form)
   Each proof = a "raw" derivative (auto_derive + field; target = the differential of the polynomial op
   applied to the tangent T_X d) + an algebraic identity on unit quaternions. *)
From Coq Require Import Reals Lra Psatz List Nsatz.
From Coquelicot Require Import Coquelicot.
Import ListNotations.
From PV Require Import Base.Num Base.RTac Model.LieGroup Model.LieExp Proofs.LieGroup Proofs.LieExp Proofs.LieJac.
Local Open Scope R_scope.
#[local] Remove Hints NumQ NumZ : typeclass_instances.

(* ---------- differentials of the two quadratic maps q |-> SO3_act q p, q |-> SO3_Adj q a in direction q' *)
Definition dact (X X' : quatR) (p : vec3R) : vec3R :=
  let uv := vcross (qv X) p in let uv := vadd uv uv in
  let uv' := vcross (qv X') p in let uv' := vadd uv' uv' in
  vadd (vadd (vscale (qw X') uv) (vscale (qw X) uv')) (vadd (vcross (qv X') uv) (vcross (qv X) uv')).
Definition dAdj (X X' : quatR) (a : vec3R) : vec3R :=
  let v := qv X in let w := qw X in let v' := qv X' in let w' := qw X' in
  vadd (vadd (vscale (4 * w * w') a) (vadd (vscale (2 * w') (vcross v a)) (vscale (2 * w) (vcross v' a))))
       (vadd (vscale (2 * vdot v a) v') (vscale (2 * vdot v' a) v)).

(* ---------- rotation facts on unit quaternions *)
Lemma Adj_act (X : quatR) a : unitq X -> mvmul (SO3_Adj X) a = SO3_act X a.
Proof. intros H. rewrite SO3_Adj_is_matrix by assumption. symmetry. apply SO3_act_is_matrix. Qed.
Lemma act_add (X : quatR) a b : SO3_act X (vadd a b) = vadd (SO3_act X a) (SO3_act X b).
Proof. lie_ring. Qed.
Lemma act_neg (X : quatR) a : SO3_act X (vneg a) = vneg (SO3_act X a).
Proof. lie_ring. Qed.
Lemma act_scale (X : quatR) k a : SO3_act X (vscale k a) = vscale k (SO3_act X a).
Proof. lie_ring. Qed.
Lemma act_cross (X : quatR) a b : unitq X -> SO3_act X (vcross a b) = vcross (SO3_act X a) (SO3_act X b).
Proof.
  unfold unitq. destruct X as [[[x y] z] w], a as [[a1 a2] a3], b as [[b1 b2] b3]. lie_unfold. intros H.
  split_pairs; nsatz.
Qed.
Lemma dact_tan (X : quatR) d p : unitq X -> dact X (tanSO3 d X) p = vcross d (SO3_act X p).
Proof.
  unfold unitq. destruct X as [[[x y] z] w], d as [[d1 d2] d3], p as [[p1 p2] p3]. unfold dact, tanSO3. lie_unfold. intros H.
  split_pairs; field_simplify_eq; cbn [Rpow_def.pow]; nsatz.
Qed.
Lemma dAdj_tan (X : quatR) d a : unitq X -> dAdj X (tanSO3 d X) a = vcross d (mvmul (SO3_Adj X) a).
Proof.
  unfold unitq. destruct X as [[[x y] z] w], d as [[d1 d2] d3], a as [[p1 p2] p3]. unfold dAdj, tanSO3. lie_unfold. intros H.
  split_pairs; field_simplify_eq; cbn [Rpow_def.pow]; nsatz.
Qed.
Lemma mul_tan (X Y : quatR) d : unitq X -> SO3_mul X (tanSO3 d Y) = tanSO3 (mvmul (SO3_Adj X) d) (SO3_mul X Y).
Proof. intros Hu. unfold tanSO3. now rewrite <- SO3_mul_assoc, conj_tan, SO3_mul_assoc. Qed.
Lemma skew_mmul (t : vec3R) (M : @mat3 R) (a : vec3R) : mvmul (mmul3 (skew t) M) a = vcross t (mvmul M a).
Proof. lie_ring. Qed.
Lemma Adj_inv_trans (X : quatR) : SO3_Adj (SO3_inv X) = mtrans (SO3_Adj X).
Proof. lie_ring. Qed.

(* ---------- SO3 AdjTXa: L_X d = Adj(X^-1) (a x d) = AdjT(X, ad(a) d),  L_a = Adj(X^-1) *)
Lemma SO3_adjT_dX_raw (X : quatR) a d i :
  is_derive (fun e => vc i (SO3_AdjTXa (pertSO3 d X e) a)) 0 (vc i (dAdj (SO3_inv X) (SO3_inv (tanSO3 d X)) a)).
Proof.
  destruct X as [[[x y] z] w], d as [[d1 d2] d3], a as [[a1 a2] a3]. unfold pertSO3, tanSO3, exp0, dAdj, vc. lie_unfold.
  d3 i; der_ring.
Qed.
Lemma SO3_adjT_dX (X : quatR) a d i : unitq X ->
  is_derive (fun e => vc i (SO3_AdjTXa (pertSO3 d X e) a)) 0 (vc i (SO3_AdjTXa X (vcross a d))).
Proof.
  intros Hu. pose proof (unitq_inv X Hu) as Hi.
  replace (SO3_AdjTXa X (vcross a d)) with (dAdj (SO3_inv X) (SO3_inv (tanSO3 d X)) a); [apply SO3_adjT_dX_raw|].
  rewrite SO3_inv_tan, dAdj_tan by assumption. unfold SO3_AdjTXa, SO3_AdjXa. rewrite !Adj_act, act_cross by assumption.
  generalize (SO3_act (SO3_inv X) d) (SO3_act (SO3_inv X) a). intros u v. lie_ring.
Qed.
Lemma SO3_adjT_da (X : quatR) a da i :
  is_derive (fun e => vc i (SO3_AdjTXa X (vadd a (vscale e da)))) 0 (vc i (SO3_AdjTXa X da)).
Proof.
  destruct X as [[[x y] z] w], da as [[d1 d2] d3], a as [[a1 a2] a3]. unfold vc. lie_unfold. d3 i; der_ring.
Qed.

(* ---------- se3 algebra vectors (tau, phi) *)
Definition v6 := (vec3R * vec3R)%type.
Definition v6neg (a : v6) : v6 := (vneg (fst a), vneg (snd a)).
Definition v6add (a b : v6) : v6 := (vadd (fst a) (fst b), vadd (snd a) (snd b)).
Definition v6scale (k : R) (a : v6) : v6 := (vscale k (fst a), vscale k (snd a)).
(* ad(x) y = [x, y] : the matrix se3_adjM x of the model applied to y *)
Definition se3_ad (x y : v6) : v6 :=
  (vadd (vcross (snd x) (fst y)) (vcross (fst x) (snd y)), vcross (snd x) (snd y)).
Definition p6c (i : nat) (a : v6) : R :=
  match i with 0%nat => vx (fst a) | 1%nat => vy (fst a) | 2%nat => vz (fst a) | S (S (S j)) => vc j (snd a) end.
Ltac d6 i := destruct i as [|[|[|[|[|i]]]]].

Lemma pertSE3_0 d X : pertSE3 d X 0 = X.
Proof.
  destruct X as [[[t1 t2] t3] [[[a b] c] w]], d as [[[u1 u2] u3] [[d1 d2] d3]].
  unfold pertSE3, exp0_se3, exp0, Jl0. lie_unfold. split_pairs; field.
Qed.

(* ---------- Mul, second argument: L = Adj(X) *)
Lemma SE3_mul_dY_raw (X Y : se3R) d i :
  is_derive (fun e => se3c i (SE3_mul X (pertSE3 d Y e))) 0
            (se3c i (SO3_act (snd X) (fst (tanSE3 d Y)), SO3_mul (snd X) (snd (tanSE3 d Y)))).
Proof.
  destruct X as [[[t1 t2] t3] [[[a b] c] w]], Y as [[[s1 s2] s3] [[[p q] r] s]], d as [[[u1 u2] u3] [[d1 d2] d3]].
  unfold pertSE3, tanSE3, tanSO3, exp0_se3, exp0, Jl0, se3c, qc. lie_unfold. d7 i; der_ring.
Qed.
Lemma SE3_mul_tan (X Y : se3R) d : unitq (snd X) ->
  (SO3_act (snd X) (fst (tanSE3 d Y)), SO3_mul (snd X) (snd (tanSE3 d Y))) = tanSE3 (SE3_AdjXa X d) (SE3_mul X Y).
Proof.
  intros Hu. destruct X as [t q], Y as [s r], d as [tau phi]. unfold tanSE3, SE3_AdjXa, SE3_mul. cbn [fst snd] in *.
  apply pair_eq; [|now apply mul_tan].
  rewrite skew_mmul, !Adj_act, !act_add, act_cross by assumption.
  generalize (SO3_act q tau) (SO3_act q phi) (SO3_act q s). intros u v x. lie_ring.
Qed.
Lemma SE3_mul_dY (X Y : se3R) d i : unitq (snd X) ->
  is_derive (fun e => se3c i (SE3_mul X (pertSE3 d Y e))) 0 (se3c i (tanSE3 (SE3_AdjXa X d) (SE3_mul X Y))).
Proof. intros Hu. rewrite <- SE3_mul_tan by assumption. apply SE3_mul_dY_raw. Qed.

(* ---------- Inv: L = -Adj(X^-1) *)
Definition DSE3_inv (X T : se3R) : se3R :=
  (vneg (vadd (dact (SO3_inv (snd X)) (SO3_inv (snd T)) (fst X)) (SO3_act (SO3_inv (snd X)) (fst T))), SO3_inv (snd T)).
Lemma SE3_inv_d_raw (X : se3R) d i :
  is_derive (fun e => se3c i (SE3_inv (pertSE3 d X e))) 0 (se3c i (DSE3_inv X (tanSE3 d X))).
Proof.
  destruct X as [[[t1 t2] t3] [[[a b] c] w]], d as [[[u1 u2] u3] [[d1 d2] d3]].
  unfold DSE3_inv, dact, pertSE3, tanSE3, tanSO3, exp0_se3, exp0, Jl0, se3c, qc. lie_unfold. d7 i; der_ring.
Qed.
Lemma SE3_inv_tan (X : se3R) d : unitq (snd X) ->
  DSE3_inv X (tanSE3 d X) = tanSE3 (v6neg (SE3_AdjXa (SE3_inv X) d)) (SE3_inv X).
Proof.
  intros Hu. pose proof (unitq_inv _ Hu) as Hi.
  destruct X as [t q], d as [tau phi]. unfold DSE3_inv, tanSE3, SE3_AdjXa, SE3_inv, v6neg. cbn [fst snd] in *.
  rewrite SO3_inv_tan by assumption. apply pair_eq; [|reflexivity].
  rewrite dact_tan, skew_mmul, !Adj_act, !act_add, act_cross by assumption.
  generalize (SO3_act (SO3_inv q) tau) (SO3_act (SO3_inv q) phi) (SO3_act (SO3_inv q) t). intros u v x. lie_ring.
Qed.
Lemma SE3_inv_d (X : se3R) d i : unitq (snd X) ->
  is_derive (fun e => se3c i (SE3_inv (pertSE3 d X e))) 0
            (se3c i (tanSE3 (v6neg (SE3_AdjXa (SE3_inv X) d)) (SE3_inv X))).
Proof. intros Hu. rewrite <- SE3_inv_tan by assumption. apply SE3_inv_d_raw. Qed.

(* ---------- AdjXa: out = Adj(X) a;  L_X = -ad(out),  L_a = Adj(X) *)
Definition DSE3_Adj (X T : se3R) (a : v6) : v6 :=
  let R := SO3_Adj (snd X) in
  (vadd (vadd (dAdj (snd X) (snd T) (fst a)) (vcross (fst T) (mvmul R (snd a))))
        (vcross (fst X) (dAdj (snd X) (snd T) (snd a))),
   dAdj (snd X) (snd T) (snd a)).
Lemma SE3_adj_dX_raw (X : se3R) a d i :
  is_derive (fun e => p6c i (SE3_AdjXa (pertSE3 d X e) a)) 0 (p6c i (DSE3_Adj X (tanSE3 d X) a)).
Proof.
  destruct X as [[[t1 t2] t3] [[[x y] z] w]], d as [[[u1 u2] u3] [[d1 d2] d3]], a as [[[a1 a2] a3] [[b1 b2] b3]].
  unfold DSE3_Adj, dAdj, pertSE3, tanSE3, tanSO3, exp0_se3, exp0, Jl0, p6c, vc. lie_unfold. d6 i; der_ring.
Qed.
Lemma SE3_Adj_tan (X : se3R) a d : unitq (snd X) ->
  DSE3_Adj X (tanSE3 d X) a = v6neg (se3_ad (SE3_AdjXa X a) d).
Proof.
  intros Hu. destruct X as [t q], d as [tau phi], a as [ta pa].
  unfold DSE3_Adj, tanSE3, SE3_AdjXa, se3_ad, v6neg. cbn [fst snd] in *.
  rewrite !dAdj_tan, skew_mmul by assumption.
  generalize (mvmul (SO3_Adj q) ta) (mvmul (SO3_Adj q) pa). intros u v. lie_ring.
Qed.
Lemma SE3_adj_dX (X : se3R) a d i : unitq (snd X) ->
  is_derive (fun e => p6c i (SE3_AdjXa (pertSE3 d X e) a)) 0 (p6c i (v6neg (se3_ad (SE3_AdjXa X a) d))).
Proof. intros Hu. rewrite <- SE3_Adj_tan by assumption. apply SE3_adj_dX_raw. Qed.
Lemma SE3_adj_da (X : se3R) a da i :
  is_derive (fun e => p6c i (SE3_AdjXa X (v6add a (v6scale e da)))) 0 (p6c i (SE3_AdjXa X da)).
Proof.
  destruct X as [[[t1 t2] t3] [[[x y] z] w]], da as [[[u1 u2] u3] [[d1 d2] d3]], a as [[[a1 a2] a3] [[b1 b2] b3]].
  unfold v6add, v6scale, p6c, vc. lie_unfold. d6 i; der_ring.
Qed.

(* Adj(X) is a Lie-algebra homomorphism: Adj(X) [x, y] = [Adj(X) x, Adj(X) y] *)
Lemma SE3_Adj_ad (X : se3R) x y : unitq (snd X) ->
  SE3_AdjXa X (se3_ad x y) = se3_ad (SE3_AdjXa X x) (SE3_AdjXa X y).
Proof.
  intros Hu. destruct X as [t q], x as [x1 x2], y as [y1 y2]. unfold SE3_AdjXa, se3_ad. cbn [fst snd] in *.
  rewrite !skew_mmul, !Adj_act, !act_add, !act_cross by assumption.
  generalize (SO3_act q x1) (SO3_act q x2) (SO3_act q y1) (SO3_act q y2). intros a b c d. lie_ring.
Qed.
Lemma SE3_AdjXa_neg (X : se3R) x : SE3_AdjXa X (v6neg x) = v6neg (SE3_AdjXa X x).
Proof. unfold v6neg. lie_ring. Qed.
Lemma se3_ad_neg_neg (x y : v6) : v6neg (se3_ad x (v6neg y)) = se3_ad x y.
Proof. unfold v6neg, se3_ad. lie_ring. Qed.

(* ---------- AdjTXa: out = Adj(X^-1) a;  L_X = Adj(X^-1) ad(a),  L_a = Adj(X^-1) *)
Lemma SE3_adjT_dX_raw (X : se3R) a d i :
  is_derive (fun e => p6c i (SE3_AdjTXa (pertSE3 d X e) a)) 0
            (p6c i (DSE3_Adj (SE3_inv X) (DSE3_inv X (tanSE3 d X)) a)).
Proof.
  destruct X as [[[t1 t2] t3] [[[x y] z] w]], d as [[[u1 u2] u3] [[d1 d2] d3]], a as [[[a1 a2] a3] [[b1 b2] b3]].
  unfold DSE3_Adj, DSE3_inv, dAdj, dact, pertSE3, tanSE3, tanSO3, exp0_se3, exp0, Jl0, p6c, vc. lie_unfold. d6 i; der_ring.
Qed.
Lemma SE3_adjT_dX (X : se3R) a d i : unitq (snd X) ->
  is_derive (fun e => p6c i (SE3_AdjTXa (pertSE3 d X e) a)) 0 (p6c i (SE3_AdjTXa X (se3_ad a d))).
Proof.
  intros Hu. assert (Hi : unitq (snd (SE3_inv X))) by (apply valid_SE3_inv; exact Hu).
  replace (SE3_AdjTXa X (se3_ad a d)) with (DSE3_Adj (SE3_inv X) (DSE3_inv X (tanSE3 d X)) a); [apply SE3_adjT_dX_raw|].
  rewrite SE3_inv_tan, SE3_Adj_tan by assumption. unfold SE3_AdjTXa.
  rewrite SE3_Adj_ad by assumption. generalize (SE3_AdjXa (SE3_inv X) a) (SE3_AdjXa (SE3_inv X) d). intros u v.
  apply se3_ad_neg_neg.
Qed.
Lemma SE3_adjT_da (X : se3R) a da i :
  is_derive (fun e => p6c i (SE3_AdjTXa X (v6add a (v6scale e da)))) 0 (p6c i (SE3_AdjTXa X da)).
Proof.
  destruct X as [[[t1 t2] t3] [[[x y] z] w]], da as [[[u1 u2] u3] [[d1 d2] d3]], a as [[[a1 a2] a3] [[b1 b2] b3]].
  unfold v6add, v6scale, p6c, vc. lie_unfold. d6 i; der_ring.
Qed.
