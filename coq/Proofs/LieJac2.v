(* C04 (part 2): chain rule along arbitrary curves for the polynomial Lie-group operations; SO3 AdjTXa and the
   remaining SE3 operations (Mul w.r.t. Y, Inv, AdjXa, AdjTXa).
   Statement shape (as in Proofs/LieJac.v): for a curve X(e) in the group with X(0) = X and X'(0) = T_X d
   (the tangent of e |-> Exp(e d) @ X; in particular the polynomial perturbation curve [pertSE3] itself), the op f
   satisfies  d/de f(X(e)) |_0 = T_{f X}(L d)  (group-valued f)  resp.  L d  (algebra-valued f), with L the matrix
   whose transpose the modelled backward multiplies the cotangent by:
     Mul (Y)    L = Adj(X)                         mul_bwd
     Inv        L = -Adj(X^-1)                     inv_bwd   (saved Y = output)
     AdjXa (X)  L = -ad(out),   (a)  L = Adj(X)    adj_bwd
     AdjTXa (X) L = Adj(X^-1) ad(a),  (a)  L = Adj(X^-1)     adjT_bwd (repaired form)
   Each proof = chain rule (differential of the polynomial op applied to the tangent; [prim_*] by auto_derive
   over abstract component functions) + an algebraic identity on unit quaternions. *)
From Coq Require Import Reals Lra Psatz List Nsatz.
From Coquelicot Require Import Coquelicot.
Import ListNotations.
From PV Require Import Base.Num Base.RTac Model.LieGroup Model.LieExp Proofs.LieGroup Proofs.LieExp Proofs.LieJac.
Local Open Scope R_scope.
#[local] Remove Hints NumQ NumZ : typeclass_instances.

Definition dact (X X' : quatR) (p : vec3R) : vec3R :=
  let uv := vcross (qv X) p in let uv := vadd uv uv in
  let uv' := vcross (qv X') p in let uv' := vadd uv' uv' in
  vadd (vadd (vscale (qw X') uv) (vscale (qw X) uv')) (vadd (vcross (qv X') uv) (vcross (qv X) uv')).
Definition dAdj (X X' : quatR) (a : vec3R) : vec3R :=
  let v := qv X in let w := qw X in let v' := qv X' in let w' := qw X' in
  vadd (vadd (vscale (4 * w * w') a) (vadd (vscale (2 * w') (vcross v a)) (vscale (2 * w) (vcross v' a))))
       (vadd (vscale (2 * vdot v a) v') (vscale (2 * vdot v' a) v)).
Definition qadd (A B : quatR) : quatR := (vadd (qv A) (qv B), qw A + qw B).

(* ---------- curves through 0 and their componentwise derivatives *)
Definition dR (s : R -> R) (s' : R) : Prop := is_derive s 0 s'.
Definition dv3 (u : R -> vec3R) (u' : vec3R) : Prop := forall i, is_derive (fun e => vc i (u e)) 0 (vc i u').
Definition dq4 (Q : R -> quatR) (Q' : quatR) : Prop := forall i, is_derive (fun e => qc i (Q e)) 0 (qc i Q').

Lemma v_eta (v : vec3R) : (vc 0 v, vc 1 v, vc 2 v) = v.
Proof. destruct v as [[a b] c]. reflexivity. Qed.
Lemma q_eta (q : quatR) : ((qc 0 q, qc 1 q, qc 2 q), qc 3 q) = q.
Proof. destruct q as [[[a b] c] w]. reflexivity. Qed.

Ltac use_derives := repeat match goal with
  | H : is_derive ?f 0 ?l |- context [Derive ?g 0] => rewrite (is_derive_unique g 0 l H) end.
Ltac der_abs := auto_derive; [repeat split; trivial; try (eexists; eassumption) | use_derives; ring].

Section Prim.
Variables (a b c w p1 p2 p3 s : R -> R) (a' b' c' w' p1' p2' p3' s' : R).
Hypotheses (Ha : is_derive a 0 a') (Hb : is_derive b 0 b') (Hc : is_derive c 0 c') (Hw : is_derive w 0 w')
  (H1 : is_derive p1 0 p1') (H2 : is_derive p2 0 p2') (H3 : is_derive p3 0 p3') (Hs : is_derive s 0 s').
Lemma prim_act i :
  is_derive (fun e => vc i (SO3_act ((a e, b e, c e), w e) (p1 e, p2 e, p3 e))) 0
    (vc i (vadd (dact ((a 0, b 0, c 0), w 0) ((a', b', c'), w') (p1 0, p2 0, p3 0))
                (SO3_act ((a 0, b 0, c 0), w 0) (p1', p2', p3')))).
Proof. unfold dact, vc. lie_unfold. d3 i; der_abs. Qed.
Lemma prim_Adj i :
  is_derive (fun e => vc i (mvmul (SO3_Adj ((a e, b e, c e), w e)) (p1 e, p2 e, p3 e))) 0
    (vc i (vadd (dAdj ((a 0, b 0, c 0), w 0) ((a', b', c'), w') (p1 0, p2 0, p3 0))
                (mvmul (SO3_Adj ((a 0, b 0, c 0), w 0)) (p1', p2', p3')))).
Proof. unfold dAdj, vc. lie_unfold. d3 i; der_abs. Qed.
Lemma prim_cross i :
  is_derive (fun e => vc i (vcross (a e, b e, c e) (p1 e, p2 e, p3 e))) 0
    (vc i (vadd (vcross (a', b', c') (p1 0, p2 0, p3 0)) (vcross (a 0, b 0, c 0) (p1', p2', p3')))).
Proof. unfold vc. lie_unfold. d3 i; der_abs. Qed.
Lemma prim_scale i :
  is_derive (fun e => vc i (vscale (s e) (p1 e, p2 e, p3 e))) 0
    (vc i (vadd (vscale s' (p1 0, p2 0, p3 0)) (vscale (s 0) (p1', p2', p3')))).
Proof. unfold vc. lie_unfold. d3 i; der_abs. Qed.
Lemma prim_add i :
  is_derive (fun e => vc i (vadd (a e, b e, c e) (p1 e, p2 e, p3 e))) 0 (vc i (vadd (a', b', c') (p1', p2', p3'))).
Proof. unfold vc. lie_unfold. d3 i; der_abs. Qed.
Lemma prim_neg i : is_derive (fun e => vc i (vneg (a e, b e, c e))) 0 (vc i (vneg (a', b', c'))).
Proof. unfold vc. lie_unfold. d3 i; der_abs. Qed.
Lemma prim_inv i : is_derive (fun e => qc i (SO3_inv ((a e, b e, c e), w e))) 0 (qc i (SO3_inv ((a', b', c'), w'))).
Proof. unfold qc. lie_unfold. d4 i; der_abs. Qed.
End Prim.
Section Prim2.
Variables (a b c w p q r s : R -> R) (a' b' c' w' p' q' r' s' : R).
Hypotheses (Ha : is_derive a 0 a') (Hb : is_derive b 0 b') (Hc : is_derive c 0 c') (Hw : is_derive w 0 w')
  (Hp : is_derive p 0 p') (Hq : is_derive q 0 q') (Hr : is_derive r 0 r') (Hs : is_derive s 0 s').
Lemma prim_mul i :
  is_derive (fun e => qc i (SO3_mul ((a e, b e, c e), w e) ((p e, q e, r e), s e))) 0
    (qc i (qadd (SO3_mul ((a', b', c'), w') ((p 0, q 0, r 0), s 0)) (SO3_mul ((a 0, b 0, c 0), w 0) ((p', q', r'), s')))).
Proof. unfold qadd, qc. lie_unfold. d4 i; der_abs. Qed.
End Prim2.

(* ---------- the same for arbitrary curves *)
Lemma dv3_act Q Q' p p' : dq4 Q Q' -> dv3 p p' ->
  dv3 (fun e => SO3_act (Q e) (p e)) (vadd (dact (Q 0) Q' (p 0)) (SO3_act (Q 0) p')).
Proof.
  intros HQ Hp i.
  pose proof (prim_act _ _ _ _ _ _ _ _ _ _ _ _ _ _ (HQ 0%nat) (HQ 1%nat) (HQ 2%nat) (HQ 3%nat) (Hp 0%nat) (Hp 1%nat) (Hp 2%nat) i) as H.
  cbv beta in H. rewrite !q_eta, !v_eta in H.
  eapply is_derive_ext; [|exact H]. intros e. cbv beta. now rewrite q_eta, v_eta.
Qed.
Lemma dv3_Adj Q Q' p p' : dq4 Q Q' -> dv3 p p' ->
  dv3 (fun e => mvmul (SO3_Adj (Q e)) (p e)) (vadd (dAdj (Q 0) Q' (p 0)) (mvmul (SO3_Adj (Q 0)) p')).
Proof.
  intros HQ Hp i.
  pose proof (prim_Adj _ _ _ _ _ _ _ _ _ _ _ _ _ _ (HQ 0%nat) (HQ 1%nat) (HQ 2%nat) (HQ 3%nat) (Hp 0%nat) (Hp 1%nat) (Hp 2%nat) i) as H.
  cbv beta in H. rewrite !q_eta, !v_eta in H.
  eapply is_derive_ext; [|exact H]. intros e. cbv beta. now rewrite q_eta, v_eta.
Qed.
Lemma dv3_cross u u' p p' : dv3 u u' -> dv3 p p' ->
  dv3 (fun e => vcross (u e) (p e)) (vadd (vcross u' (p 0)) (vcross (u 0) p')).
Proof.
  intros Hu Hp i.
  pose proof (prim_cross _ _ _ _ _ _ _ _ _ _ _ _ (Hu 0%nat) (Hu 1%nat) (Hu 2%nat) (Hp 0%nat) (Hp 1%nat) (Hp 2%nat) i) as H.
  cbv beta in H. rewrite !v_eta in H.
  eapply is_derive_ext; [|exact H]. intros e. cbv beta. now rewrite !v_eta.
Qed.
Lemma dv3_scale s s' p p' : dR s s' -> dv3 p p' ->
  dv3 (fun e => vscale (s e) (p e)) (vadd (vscale s' (p 0)) (vscale (s 0) p')).
Proof.
  intros Hs Hp i.
  pose proof (prim_scale _ _ _ _ _ _ _ _ (Hp 0%nat) (Hp 1%nat) (Hp 2%nat) Hs i) as H.
  cbv beta in H. rewrite !v_eta in H.
  eapply is_derive_ext; [|exact H]. intros e. cbv beta. now rewrite !v_eta.
Qed.
Lemma dv3_add u u' p p' : dv3 u u' -> dv3 p p' -> dv3 (fun e => vadd (u e) (p e)) (vadd u' p').
Proof.
  intros Hu Hp i.
  pose proof (prim_add _ _ _ _ _ _ _ _ _ _ _ _ (Hu 0%nat) (Hu 1%nat) (Hu 2%nat) (Hp 0%nat) (Hp 1%nat) (Hp 2%nat) i) as H.
  cbv beta in H. rewrite !v_eta in H.
  eapply is_derive_ext; [|exact H]. intros e. cbv beta. now rewrite !v_eta.
Qed.
Lemma dv3_neg u u' : dv3 u u' -> dv3 (fun e => vneg (u e)) (vneg u').
Proof.
  intros Hu i.
  pose proof (prim_neg _ _ _ _ _ _ (Hu 0%nat) (Hu 1%nat) (Hu 2%nat) i) as H.
  cbv beta in H. rewrite !v_eta in H.
  eapply is_derive_ext; [|exact H]. intros e. cbv beta. now rewrite !v_eta.
Qed.
Lemma dq4_inv Q Q' : dq4 Q Q' -> dq4 (fun e => SO3_inv (Q e)) (SO3_inv Q').
Proof.
  intros HQ i.
  pose proof (prim_inv _ _ _ _ _ _ _ _ (HQ 0%nat) (HQ 1%nat) (HQ 2%nat) (HQ 3%nat) i) as H.
  cbv beta in H. rewrite !q_eta in H.
  eapply is_derive_ext; [|exact H]. intros e. cbv beta. now rewrite !q_eta.
Qed.
Lemma dq4_mul A A' B B' : dq4 A A' -> dq4 B B' ->
  dq4 (fun e => SO3_mul (A e) (B e)) (qadd (SO3_mul A' (B 0)) (SO3_mul (A 0) B')).
Proof.
  intros HA HB i.
  pose proof (prim_mul _ _ _ _ _ _ _ _ _ _ _ _ _ _ _ _ (HA 0%nat) (HA 1%nat) (HA 2%nat) (HA 3%nat) (HB 0%nat) (HB 1%nat) (HB 2%nat) (HB 3%nat) i) as H.
  cbv beta in H. rewrite !q_eta in H.
  eapply is_derive_ext; [|exact H]. intros e. cbv beta. now rewrite !q_eta.
Qed.
Lemma dv3_const (u : vec3R) : dv3 (fun _ => u) vzero.
Proof. intros i. replace (vc i vzero) with 0 by (d3 i; reflexivity). apply @is_derive_const. Qed.
Lemma dq4_const (q : quatR) : dq4 (fun _ => q) (vzero, 0).
Proof. intros i. replace (qc i (vzero, 0)) with 0 by (d4 i; reflexivity). apply @is_derive_const. Qed.
Lemma dv3_ext (u v : R -> vec3R) u' v' : (forall e, u e = v e) -> u' = v' -> dv3 u u' -> dv3 v v'.
Proof. intros E <- H i. eapply is_derive_ext; [|apply (H i)]. intros e. cbv beta. now rewrite E. Qed.
Lemma dq4_ext (u v : R -> quatR) u' v' : (forall e, u e = v e) -> u' = v' -> dq4 u u' -> dq4 v v'.
Proof. intros E <- H i. eapply is_derive_ext; [|apply (H i)]. intros e. cbv beta. now rewrite E. Qed.

(* ---------- rotation facts on unit quaternions *)
Lemma Adj_act (X : quatR) a : unitq X -> mvmul (SO3_Adj X) a = SO3_act X a.
Proof. intros H. rewrite SO3_Adj_is_matrix by assumption. symmetry. apply SO3_act_is_matrix. Qed.
Lemma act_add (X : quatR) a b : SO3_act X (vadd a b) = vadd (SO3_act X a) (SO3_act X b).
Proof. lie_ring. Qed.
Lemma act_neg (X : quatR) a : SO3_act X (vneg a) = vneg (SO3_act X a).
Proof. lie_ring. Qed.
Lemma act_scale (X : quatR) k a : SO3_act X (vscale k a) = vscale k (SO3_act X a).
Proof. lie_ring. Qed.
Lemma act_cross (X : quatR) a b : unitq X -> SO3_act X (vcross a b) = vcross (SO3_act X a) (SO3_act X b).
Proof.
  unfold unitq. destruct X as [[[x y] z] w], a as [[a1 a2] a3], b as [[b1 b2] b3]. lie_unfold. intros H.
  split_pairs; nsatz.
Qed.
Lemma dact_tan (X : quatR) d p : unitq X -> dact X (tanSO3 d X) p = vcross d (SO3_act X p).
Proof.
  unfold unitq. destruct X as [[[x y] z] w], d as [[d1 d2] d3], p as [[p1 p2] p3]. unfold dact, tanSO3. lie_unfold. intros H.
  split_pairs; field_simplify_eq; cbn [Rpow_def.pow]; nsatz.
Qed.
Lemma dAdj_tan (X : quatR) d a : unitq X -> dAdj X (tanSO3 d X) a = vcross d (mvmul (SO3_Adj X) a).
Proof.
  unfold unitq. destruct X as [[[x y] z] w], d as [[d1 d2] d3], a as [[p1 p2] p3]. unfold dAdj, tanSO3. lie_unfold. intros H.
  split_pairs; field_simplify_eq; cbn [Rpow_def.pow]; nsatz.
Qed.
Lemma mul_tan (X Y : quatR) d : unitq X -> SO3_mul X (tanSO3 d Y) = tanSO3 (mvmul (SO3_Adj X) d) (SO3_mul X Y).
Proof. intros Hu. unfold tanSO3. now rewrite <- SO3_mul_assoc, conj_tan, SO3_mul_assoc. Qed.
Lemma tan_mul (X Y : quatR) d : SO3_mul (tanSO3 d X) Y = tanSO3 d (SO3_mul X Y).
Proof. unfold tanSO3. apply SO3_mul_assoc. Qed.
Lemma skew_mmul (t : vec3R) (M : @mat3 R) (a : vec3R) : mvmul (mmul3 (skew t) M) a = vcross t (mvmul M a).
Proof. lie_ring. Qed.
Lemma mvmul_0 (M : @mat3 R) : mvmul M vzero = vzero.
Proof. lie_ring. Qed.
Lemma vadd_0_r (u : vec3R) : vadd u vzero = u.
Proof. lie_ring. Qed.
Lemma vadd_0_l (u : vec3R) : vadd vzero u = u.
Proof. lie_ring. Qed.
Lemma Adj_inv_trans (X : quatR) : SO3_Adj (SO3_inv X) = mtrans (SO3_Adj X).
Proof. lie_ring. Qed.

(* ---------- SO3, arbitrary curves Q with Q(0) = X, Q'(0) = T_X d *)
Lemma SO3_adjT_dX_curve (Q : R -> quatR) a d : unitq (Q 0) -> dq4 Q (tanSO3 d (Q 0)) ->
  dv3 (fun e => SO3_AdjTXa (Q e) a) (SO3_AdjTXa (Q 0) (vcross a d)).
Proof.
  intros Hu HQ. pose proof (unitq_inv _ Hu) as Hi.
  pose proof (dv3_Adj _ _ _ _ (dq4_inv _ _ HQ) (dv3_const a)) as H. cbv beta in H.
  revert H. apply dv3_ext; [reflexivity|].
  rewrite mvmul_0, vadd_0_r, SO3_inv_tan, dAdj_tan by assumption. unfold SO3_AdjTXa, SO3_AdjXa. rewrite !Adj_act, act_cross by assumption.
  generalize (SO3_act (SO3_inv (Q 0)) d) (SO3_act (SO3_inv (Q 0)) a). intros u v. lie_ring.
Qed.

(* SO3 AdjTXa along the perturbation curve:  L_X d = Adj(X^-1) (a x d) = AdjT(X, ad(a) d),  L_a = Adj(X^-1) *)
Lemma pertSO3_curve d X : dq4 (pertSO3 d X) (tanSO3 d (pertSO3 d X 0)).
Proof. rewrite pertSO3_0. intros i. apply pertSO3_tan. Qed.
Lemma SO3_adjT_dX (X : quatR) a d i : unitq X ->
  is_derive (fun e => vc i (SO3_AdjTXa (pertSO3 d X e) a)) 0 (vc i (SO3_AdjTXa X (vcross a d))).
Proof.
  intros Hu. pose proof (SO3_adjT_dX_curve (pertSO3 d X) a d) as H. rewrite pertSO3_0 in H.
  apply H; [exact Hu | rewrite <- (pertSO3_0 d X) at 2; apply pertSO3_curve].
Qed.
Lemma SO3_adjT_da (X : quatR) a da i :
  is_derive (fun e => vc i (SO3_AdjTXa X (vadd a (vscale e da)))) 0 (vc i (SO3_AdjTXa X da)).
Proof.
  destruct X as [[[x y] z] w], da as [[d1 d2] d3], a as [[a1 a2] a3]. unfold vc. lie_unfold. d3 i; der_ring.
Qed.


(* ---------- se3 algebra vectors (tau, phi), SE3 curves *)
Definition v6 := (vec3R * vec3R)%type.
Definition v6zero : v6 := (vzero, vzero).
Definition v6neg (a : v6) : v6 := (vneg (fst a), vneg (snd a)).
Definition v6add (a b : v6) : v6 := (vadd (fst a) (fst b), vadd (snd a) (snd b)).
Definition v6scale (k : R) (a : v6) : v6 := (vscale k (fst a), vscale k (snd a)).
(* ad(x) y = [x, y] : the matrix se3_adjM x of the model applied to y *)
Definition se3_ad (x y : v6) : v6 :=
  (vadd (vcross (snd x) (fst y)) (vcross (fst x) (snd y)), vcross (snd x) (snd y)).
Definition p6c (i : nat) (a : v6) : R :=
  match i with 0%nat => vx (fst a) | 1%nat => vy (fst a) | 2%nat => vz (fst a) | S (S (S j)) => vc j (snd a) end.
Ltac d6 i := destruct i as [|[|[|[|[|i]]]]].
Definition se3zero : se3R := (vzero, (vzero, 0)).

Definition dse3 (X : R -> se3R) (X' : se3R) : Prop :=
  dv3 (fun e => fst (X e)) (fst X') /\ dq4 (fun e => snd (X e)) (snd X').
Definition dv6 (a : R -> v6) (a' : v6) : Prop :=
  dv3 (fun e => fst (a e)) (fst a') /\ dv3 (fun e => snd (a e)) (snd a').
Lemma dse3_c X X' : dse3 X X' <-> forall i, is_derive (fun e => se3c i (X e)) 0 (se3c i X').
Proof.
  split.
  - intros [Ht Hq] i. destruct i as [|[|[|j]]]; [apply (Ht 0%nat) | apply (Ht 1%nat) | apply (Ht 2%nat) | apply (Hq j)].
  - intros H. split.
    + intros i. d3 i; [apply (H 0%nat) | apply (H 1%nat) | apply (H 2%nat)].
    + intros j. apply (H (S (S (S j)))).
Qed.
Lemma dv6_c a a' : dv6 a a' <-> forall i, is_derive (fun e => p6c i (a e)) 0 (p6c i a').
Proof.
  split.
  - intros [Ht Hq] i. destruct i as [|[|[|j]]]; [apply (Ht 0%nat) | apply (Ht 1%nat) | apply (Ht 2%nat) | apply (Hq j)].
  - intros H. split.
    + intros i. d3 i; [apply (H 0%nat) | apply (H 1%nat) | apply (H 2%nat)].
    + intros j. apply (H (S (S (S j)))).
Qed.
Lemma dse3_const X : dse3 (fun _ => X) se3zero.
Proof. split; [apply dv3_const | apply dq4_const]. Qed.
Lemma dv6_const a : dv6 (fun _ => a) v6zero.
Proof. split; apply dv3_const. Qed.
Lemma dv6_line a da : dv6 (fun e => v6add a (v6scale e da)) da.
Proof.
  apply dv6_c. intros i. destruct a as [[[a1 a2] a3] [[b1 b2] b3]], da as [[[u1 u2] u3] [[d1 d2] d3]].
  unfold v6add, v6scale, p6c, vc. lie_unfold. d6 i; der_ring.
Qed.
Lemma pertSE3_0 d X : pertSE3 d X 0 = X.
Proof.
  destruct X as [[[t1 t2] t3] [[[a b] c] w]], d as [[[u1 u2] u3] [[d1 d2] d3]].
  unfold pertSE3, exp0_se3, exp0, Jl0. lie_unfold. split_pairs; field.
Qed.
Lemma pertSE3_curve d X : dse3 (pertSE3 d X) (tanSE3 d (pertSE3 d X 0)).
Proof. rewrite pertSE3_0. apply dse3_c. intros i. apply pertSE3_tan. Qed.

(* ---------- chain rule for the SE3 operations *)
Definition DSE3_mul (X X' Y Y' : se3R) : se3R :=
  (vadd (fst X') (vadd (dact (snd X) (snd X') (fst Y)) (SO3_act (snd X) (fst Y'))),
   qadd (SO3_mul (snd X') (snd Y)) (SO3_mul (snd X) (snd Y'))).
Lemma dSE3_mul X X' Y Y' : dse3 X X' -> dse3 Y Y' -> dse3 (fun e => SE3_mul (X e) (Y e)) (DSE3_mul (X 0) X' (Y 0) Y').
Proof.
  intros [HXt HXq] [HYt HYq]. split; unfold SE3_mul, DSE3_mul; cbn [fst snd].
  - apply dv3_add; [exact HXt|]. apply (dv3_act (fun e => snd (X e)) _ (fun e => fst (Y e)) _ HXq HYt).
  - apply (dq4_mul (fun e => snd (X e)) _ (fun e => snd (Y e)) _ HXq HYq).
Qed.
Definition DSE3_inv (X X' : se3R) : se3R :=
  (vneg (vadd (dact (SO3_inv (snd X)) (SO3_inv (snd X')) (fst X)) (SO3_act (SO3_inv (snd X)) (fst X'))), SO3_inv (snd X')).
Lemma dSE3_inv X X' : dse3 X X' -> dse3 (fun e => SE3_inv (X e)) (DSE3_inv (X 0) X').
Proof.
  intros [Ht Hq]. split; unfold SE3_inv, DSE3_inv; cbn [fst snd].
  - apply dv3_neg. apply (dv3_act (fun e => SO3_inv (snd (X e))) _ (fun e => fst (X e)) _ (dq4_inv _ _ Hq) Ht).
  - apply (dq4_inv _ _ Hq).
Qed.
Definition DSE3_Adj (X X' : se3R) (a a' : v6) : v6 :=
  let R := SO3_Adj (snd X) in
  let dphi := vadd (dAdj (snd X) (snd X') (snd a)) (mvmul R (snd a')) in
  (vadd (vadd (dAdj (snd X) (snd X') (fst a)) (mvmul R (fst a')))
        (vadd (vcross (fst X') (mvmul R (snd a))) (vcross (fst X) dphi)), dphi).
Lemma dSE3_Adj X X' a a' : dse3 X X' -> dv6 a a' -> dv6 (fun e => SE3_AdjXa (X e) (a e)) (DSE3_Adj (X 0) X' (a 0) a').
Proof.
  intros [Ht Hq] [Ha1 Ha2].
  pose proof (dv3_Adj _ _ _ _ Hq Ha1) as H1. pose proof (dv3_Adj _ _ _ _ Hq Ha2) as H2. cbv beta in H1, H2.
  split; unfold SE3_AdjXa, DSE3_Adj; cbn [fst snd]; cbv zeta; [|exact H2].
  pose proof (dv3_add _ _ _ _ H1 (dv3_cross (fun e => fst (X e)) _ _ _ Ht H2)) as H. cbv beta in H.
  revert H. apply dv3_ext; [intros e; now rewrite skew_mmul | reflexivity].
Qed.

(* ---------- algebraic identities: differential at the tangent T_X d = tangent of the result at L d *)
Lemma qadd_0_l (q : quatR) : qadd (vzero, 0) q = q.
Proof. unfold qadd. lie_ring. Qed.
Lemma qadd_0_r (q : quatR) : qadd q (vzero, 0) = q.
Proof. unfold qadd. lie_ring. Qed.
Lemma mul_0_l (q : quatR) : SO3_mul (vzero, 0) q = (vzero, 0).
Proof. lie_ring. Qed.
Lemma mul_0_r (q : quatR) : SO3_mul q (vzero, 0) = (vzero, 0).
Proof. lie_ring. Qed.
Lemma dact_0 (q : quatR) p : dact q (vzero, 0) p = vzero.
Proof. unfold dact. lie_ring. Qed.
Lemma dAdj_0 (q : quatR) p : dAdj q (vzero, 0) p = vzero.
Proof. unfold dAdj. lie_ring. Qed.
Lemma act_0 (q : quatR) : SO3_act q vzero = vzero.
Proof. lie_ring. Qed.

Lemma SE3_mul_tan_X (X Y : se3R) d : unitq (snd X) -> DSE3_mul X (tanSE3 d X) Y se3zero = tanSE3 d (SE3_mul X Y).
Proof.
  intros Hu. destruct X as [t q], Y as [s r], d as [tau phi]. unfold DSE3_mul, tanSE3, SE3_mul, se3zero. cbn [fst snd] in *.
  rewrite mul_0_r, qadd_0_r, tan_mul, act_0, vadd_0_r, dact_tan by assumption.
  apply pair_eq; [|reflexivity]. generalize (SO3_act q s). intros u. lie_ring.
Qed.
Lemma SE3_mul_tan_Y (X Y : se3R) d : unitq (snd X) ->
  DSE3_mul X se3zero Y (tanSE3 d Y) = tanSE3 (SE3_AdjXa X d) (SE3_mul X Y).
Proof.
  intros Hu. destruct X as [t q], Y as [s r], d as [tau phi]. unfold DSE3_mul, tanSE3, SE3_AdjXa, SE3_mul, se3zero. cbn [fst snd] in *.
  rewrite mul_0_l, qadd_0_l, dact_0, !vadd_0_l.
  apply pair_eq; [|now apply mul_tan].
  rewrite skew_mmul, !Adj_act, !act_add, act_cross by assumption.
  generalize (SO3_act q tau) (SO3_act q phi) (SO3_act q s). intros u v x. lie_ring.
Qed.
Lemma SE3_inv_tan (X : se3R) d : unitq (snd X) ->
  DSE3_inv X (tanSE3 d X) = tanSE3 (v6neg (SE3_AdjXa (SE3_inv X) d)) (SE3_inv X).
Proof.
  intros Hu. pose proof (unitq_inv _ Hu) as Hi.
  destruct X as [t q], d as [tau phi]. unfold DSE3_inv, tanSE3, SE3_AdjXa, SE3_inv, v6neg. cbn [fst snd] in *.
  rewrite SO3_inv_tan by assumption. apply pair_eq; [|reflexivity].
  rewrite dact_tan, skew_mmul, !Adj_act, !act_add, act_cross by assumption.
  generalize (SO3_act (SO3_inv q) tau) (SO3_act (SO3_inv q) phi) (SO3_act (SO3_inv q) t). intros u v x. lie_ring.
Qed.
Lemma SE3_Adj_tan (X : se3R) a d : unitq (snd X) ->
  DSE3_Adj X (tanSE3 d X) a v6zero = v6neg (se3_ad (SE3_AdjXa X a) d).
Proof.
  intros Hu. destruct X as [t q], d as [tau phi], a as [ta pa].
  unfold DSE3_Adj, tanSE3, SE3_AdjXa, se3_ad, v6neg, v6zero. cbn [fst snd] in *. cbv zeta.
  rewrite !dAdj_tan, skew_mmul, !mvmul_0, !vadd_0_r by assumption.
  generalize (mvmul (SO3_Adj q) ta) (mvmul (SO3_Adj q) pa). intros u v. lie_ring.
Qed.
Lemma SE3_Adj_lin (X : se3R) a a' : DSE3_Adj X se3zero a a' = SE3_AdjXa X a'.
Proof.
  destruct X as [t q], a as [ta pa], a' as [ta' pa']. unfold DSE3_Adj, SE3_AdjXa, se3zero. cbn [fst snd]. cbv zeta.
  rewrite !dAdj_0, skew_mmul. generalize (SO3_Adj q). intros M. lie_ring.
Qed.
(* Adj(X) is a Lie-algebra homomorphism: Adj(X) [x, y] = [Adj(X) x, Adj(X) y] *)
Lemma SE3_Adj_ad (X : se3R) x y : unitq (snd X) ->
  SE3_AdjXa X (se3_ad x y) = se3_ad (SE3_AdjXa X x) (SE3_AdjXa X y).
Proof.
  intros Hu. destruct X as [t q], x as [x1 x2], y as [y1 y2]. unfold SE3_AdjXa, se3_ad. cbn [fst snd] in *.
  rewrite !skew_mmul, !Adj_act, !act_add, !act_cross by assumption.
  generalize (SO3_act q x1) (SO3_act q x2) (SO3_act q y1) (SO3_act q y2). intros a b c d. lie_ring.
Qed.
Lemma se3_ad_neg_neg (x y : v6) : v6neg (se3_ad x (v6neg y)) = se3_ad x y.
Proof. unfold v6neg, se3_ad. lie_ring. Qed.

(* ---------- the per-operation statements along arbitrary curves *)
Theorem SE3_mul_dX_curve (X : R -> se3R) (Y : se3R) d : unitq (snd (X 0)) -> dse3 X (tanSE3 d (X 0)) ->
  dse3 (fun e => SE3_mul (X e) Y) (tanSE3 d (SE3_mul (X 0) Y)).
Proof.
  intros Hu HX. pose proof (dSE3_mul _ _ _ _ HX (dse3_const Y)) as H. cbv beta in H.
  now rewrite SE3_mul_tan_X in H.
Qed.
Theorem SE3_mul_dY_curve (X : se3R) (Y : R -> se3R) d : unitq (snd X) -> dse3 Y (tanSE3 d (Y 0)) ->
  dse3 (fun e => SE3_mul X (Y e)) (tanSE3 (SE3_AdjXa X d) (SE3_mul X (Y 0))).
Proof.
  intros Hu HY. pose proof (dSE3_mul _ _ _ _ (dse3_const X) HY) as H. cbv beta in H.
  now rewrite SE3_mul_tan_Y in H.
Qed.
Theorem SE3_inv_curve (X : R -> se3R) d : unitq (snd (X 0)) -> dse3 X (tanSE3 d (X 0)) ->
  dse3 (fun e => SE3_inv (X e)) (tanSE3 (v6neg (SE3_AdjXa (SE3_inv (X 0)) d)) (SE3_inv (X 0))).
Proof. intros Hu HX. pose proof (dSE3_inv _ _ HX) as H. now rewrite SE3_inv_tan in H. Qed.
Theorem SE3_adj_dX_curve (X : R -> se3R) a d : unitq (snd (X 0)) -> dse3 X (tanSE3 d (X 0)) ->
  dv6 (fun e => SE3_AdjXa (X e) a) (v6neg (se3_ad (SE3_AdjXa (X 0) a) d)).
Proof.
  intros Hu HX. pose proof (dSE3_Adj _ _ _ _ HX (dv6_const a)) as H. cbv beta in H. now rewrite SE3_Adj_tan in H.
Qed.
Theorem SE3_adj_da_curve (X : se3R) (a : R -> v6) a' : dv6 a a' -> dv6 (fun e => SE3_AdjXa X (a e)) (SE3_AdjXa X a').
Proof. intros Ha. pose proof (dSE3_Adj _ _ _ _ (dse3_const X) Ha) as H. cbv beta in H. now rewrite SE3_Adj_lin in H. Qed.
Theorem SE3_adjT_dX_curve (X : R -> se3R) a d : unitq (snd (X 0)) -> dse3 X (tanSE3 d (X 0)) ->
  dv6 (fun e => SE3_AdjTXa (X e) a) (SE3_AdjTXa (X 0) (se3_ad a d)).
Proof.
  intros Hu HX. assert (Hi : unitq (snd (SE3_inv (X 0)))) by (apply valid_SE3_inv; exact Hu).
  pose proof (SE3_inv_curve X d Hu HX) as HI.
  pose proof (SE3_adj_dX_curve (fun e => SE3_inv (X e)) a _ Hi HI) as H. cbv beta in H.
  unfold SE3_AdjTXa. rewrite SE3_Adj_ad by assumption.
  rewrite <- se3_ad_neg_neg. exact H.
Qed.
Theorem SE3_adjT_da_curve (X : se3R) (a : R -> v6) a' : dv6 a a' -> dv6 (fun e => SE3_AdjTXa X (a e)) (SE3_AdjTXa X a').
Proof. intros Ha. apply (SE3_adj_da_curve (SE3_inv X) a a' Ha). Qed.

(* ---------- the same along the polynomial perturbation curve e |-> Exp(e d) @ X of Proofs/LieJac.v *)
Lemma SE3_mul_dY (X Y : se3R) d i : unitq (snd X) ->
  is_derive (fun e => se3c i (SE3_mul X (pertSE3 d Y e))) 0 (se3c i (tanSE3 (SE3_AdjXa X d) (SE3_mul X Y))).
Proof.
  intros Hu. pose proof (SE3_mul_dY_curve X (pertSE3 d Y) d Hu (pertSE3_curve d Y)) as H.
  rewrite pertSE3_0 in H. apply dse3_c. exact H.
Qed.
Lemma SE3_inv_d (X : se3R) d i : unitq (snd X) ->
  is_derive (fun e => se3c i (SE3_inv (pertSE3 d X e))) 0
            (se3c i (tanSE3 (v6neg (SE3_AdjXa (SE3_inv X) d)) (SE3_inv X))).
Proof.
  intros Hu. pose proof (SE3_inv_curve (pertSE3 d X) d) as H. rewrite pertSE3_0 in H.
  apply dse3_c. apply H; [exact Hu | rewrite <- (pertSE3_0 d X) at 2; apply pertSE3_curve].
Qed.
Lemma SE3_adj_dX (X : se3R) a d i : unitq (snd X) ->
  is_derive (fun e => p6c i (SE3_AdjXa (pertSE3 d X e) a)) 0 (p6c i (v6neg (se3_ad (SE3_AdjXa X a) d))).
Proof.
  intros Hu. pose proof (SE3_adj_dX_curve (pertSE3 d X) a d) as H. rewrite pertSE3_0 in H.
  apply dv6_c. apply H; [exact Hu | rewrite <- (pertSE3_0 d X) at 2; apply pertSE3_curve].
Qed.
Lemma SE3_adj_da (X : se3R) a da i :
  is_derive (fun e => p6c i (SE3_AdjXa X (v6add a (v6scale e da)))) 0 (p6c i (SE3_AdjXa X da)).
Proof. apply dv6_c. apply SE3_adj_da_curve. apply dv6_line. Qed.
Lemma SE3_adjT_dX (X : se3R) a d i : unitq (snd X) ->
  is_derive (fun e => p6c i (SE3_AdjTXa (pertSE3 d X e) a)) 0 (p6c i (SE3_AdjTXa X (se3_ad a d))).
Proof.
  intros Hu. pose proof (SE3_adjT_dX_curve (pertSE3 d X) a d) as H. rewrite pertSE3_0 in H.
  apply dv6_c. apply H; [exact Hu | rewrite <- (pertSE3_0 d X) at 2; apply pertSE3_curve].
Qed.
Lemma SE3_adjT_da (X : se3R) a da i :
  is_derive (fun e => p6c i (SE3_AdjTXa X (v6add a (v6scale e da)))) 0 (p6c i (SE3_AdjTXa X da)).
Proof. apply dv6_c. apply SE3_adjT_da_curve. apply dv6_line. Qed.
