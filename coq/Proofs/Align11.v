(* C17, eleventh part:
   (a) the ICP basin for an arbitrary target: the target CONTAINS the rigid image of the source in any
       order, possibly with extra points and with duplicated points (a matching idx0 names them);
   (b) optimality of svdtf / svdstf stated on the element returned by the call;
   (c) svdtf(points, T0 @ points) returns T0 itself (translation equal, quaternion equal up to sign);
   (d) EPnP: the residual of the refinement objective (BetaObjective) vanishes at the exact candidate;
       the solve contract of _compute_alpha has exactly one solution for affinely independent
       control points, and the control points of _svd_basis are affinely independent when the three
       singular values are positive. *)
From Coq Require Import Reals Lra Psatz List Nsatz ZArith Bool Arith.
Import ListNotations.
From PV Require Import Base.Num Base.RTac Model.LieGroup Model.Controller Model.Align Proofs.LieGroup
  Proofs.Align Proofs.Align2 Proofs.Align3 Proofs.Align4 Proofs.Align5 Proofs.Align7 Proofs.Align8.
From PV Require Import Model.Convert Proofs.Convert Proofs.Convert3.
Local Open Scope R_scope.
#[local] Remove Hints NumQ NumZ : typeclass_instances.

(* ---------------------------------------------------------------- (a) basin, general target *)
(* idx0 names, for every point of P, "its" target point; every target point that is a DIFFERENT point
   is strictly farther *)
Definition own_closest_via (P T : cloudR) (idx0 : list nat) : Prop :=
  length idx0 = length P /\ Forall (fun i => (i < length T)%nat) idx0 /\
  forall k j, (k < length P)%nat -> (j < length T)%nat ->
    nth j T vzero <> nth (nth k idx0 O) T vzero ->
    sqnorm (vsub (nth (nth k idx0 O) T vzero) (nth k P vzero)) < sqnorm (vsub (nth j T vzero) (nth k P vzero)).
Definition within_half_separation_via (P T : cloudR) (idx0 : list nat) : Prop :=
  length idx0 = length P /\ Forall (fun i => (i < length T)%nat) idx0 /\
  forall k j, (k < length P)%nat -> (j < length T)%nat ->
    nth j T vzero <> nth (nth k idx0 O) T vzero ->
    4 * sqnorm (vsub (nth (nth k idx0 O) T vzero) (nth k P vzero))
    < sqnorm (vsub (nth j T vzero) (nth (nth k idx0 O) T vzero)).

Lemma half_sep_own_closest_via P T idx0 : within_half_separation_via P T idx0 -> own_closest_via P T idx0.
Proof.
  intros (HL & Hr & H). split; [exact HL|]. split; [exact Hr|]. intros k j Hk Hj Hne. specialize (H k j Hk Hj Hne).
  set (Tm := nth (nth k idx0 O) T vzero) in *. set (Tj := nth j T vzero) in *. set (Pk := nth k P vzero) in *.
  replace (vsub Tj Pk) with (vadd (vsub Tm Pk) (vsub Tj Tm)) by (clearbody Tm Tj Pk; al_ring).
  now apply closer_by_triangle.
Qed.
Lemma vec3_eq_dec (a b : vec3R) : {a = b} + {a <> b}.
Proof.
  destruct a as [[a1 a2] a3], b as [[b1 b2] b3].
  destruct (Req_EM_T a1 b1) as [-> | H1]; [|right; intros E; injection E; intros; contradiction].
  destruct (Req_EM_T a2 b2) as [-> | H2]; [|right; intros E; injection E; intros; contradiction].
  destruct (Req_EM_T a3 b3) as [-> | H3]; [left; reflexivity | right; intros E; injection E; intros; contradiction].
Qed.
Lemma gather3_nth T idx k : (k < length idx)%nat -> nth k (gather3 T idx) vzero = nth (nth k idx O) T vzero.
Proof.
  intros Hk. unfold gather3.
  rewrite (nth_indep _ vzero (nth (nth k idx O) T vzero)) by (rewrite map_length; exact Hk).
  rewrite (map_nth (fun i => nth i T vzero) idx (nth k idx O)).
  now rewrite (nth_indep idx (nth k idx O) O) by exact Hk.
Qed.
(* every knn answer meeting the contract selects the same POINTS as idx0 *)
Lemma knn_forced_via P T idx idx0 : own_closest_via P T idx0 -> knn_ok P T idx -> gather3 T idx = gather3 T idx0.
Proof.
  intros (HL0 & Hr0 & Hown) Hk. pose proof (knn_ok_length _ _ _ Hk) as HLi.
  apply (nth_ext _ _ vzero vzero); [unfold gather3; rewrite !map_length; lia|].
  intros k Hk'. unfold gather3 in Hk'. rewrite map_length in Hk'.
  rewrite !gather3_nth by lia.
  pose proof (Forall2_nth _ vzero O _ _ Hk k ltac:(lia)) as [Hr Hbest]. cbv beta in Hr, Hbest.
  destruct (vec3_eq_dec (nth (nth k idx O) T vzero) (nth (nth k idx0 O) T vzero)) as [E | Hne]; [exact E | exfalso].
  assert (Hm : (nth k idx0 O < length T)%nat).
  { rewrite Forall_forall in Hr0. apply Hr0. apply nth_In. lia. }
  specialize (Hbest _ (nth_In T vzero Hm)).
  specialize (Hown k (nth k idx O) ltac:(lia) Hr Hne). lra.
Qed.

Section Basin.
Variable svd : mat3R -> mat3R * vec3R * mat3R.
Variable knn : cloudR -> cloudR -> list (R * nat).
Theorem icp_forward_recovers_basin_matched (target : cloudR) (idx0 : list nat)
  (cfg : rtb_cfg) (st0 : rtb_state) (init : option se3R) (source : cloudR) A0 t0 :
  source <> [] -> rot A0 ->
  (forall T, init = Some T -> unitq (snd T)) ->
  gather3 target idx0 = map (rigid_apply A0 t0) source ->
  within_half_separation_via (icp_start init source) target idx0 ->
  pass_ok svd knn target (icp_start init source) -> pass_ok svd knn target (map (rigid_apply A0 t0) source) ->
  svd_contract svd (svdtf_M source (map (rigid_apply A0 t0) source)) ->
  exists T st errs,
    icp_forward svd knn cfg st0 init source target = Some (T, st, errs) /\ unitq (snd T) /\
    se3_cloud T source = map (rigid_apply A0 t0) source /\
    cpdk knn target (se3_cloud T source) = 0 /\
    (noncollinear source -> fst T = t0 /\ SO3_matrix (snd T) = A0).
Proof.
  intros Hne HA Hinit EG Hsep Hok HokG Hfin.
  apply (icp_forward_recovers svd knn target cfg st0 init source A0 t0 Hne HA Hinit); try assumption.
  rewrite <- EG. apply (knn_forced_via _ _ _ _ (half_sep_own_closest_via _ _ _ Hsep)). exact (proj1 Hok).
Qed.
End Basin.

(* ---------------------------------------------------------------- (b) optimality of the returned element *)
Section Called.
Variable svd : mat3R -> mat3R * vec3R * mat3R.
Theorem svdtf_call_optimal (src tgt : cloudR) :
  sizes_ok src tgt = true -> svd_contract svd (svdtf_M src tgt) ->
  exists T, svdtf svd src tgt = Some T /\ unitq (snd T) /\ rot (SO3_matrix (snd T)) /\
    forall A t, rot A -> resid (SE3_act T) src tgt <= resid (rigid_apply A t) src tgt.
Proof.
  intros Hs Hc. destruct (svdtf_returns svd src tgt Hs Hc) as (T & ET & Hq & HT).
  exists T. split; [exact ET|]. split; [exact Hq|]. split; [now apply unitq_rot|]. intros A t HA.
  unfold svd_contract in Hc. destruct (svd (svdtf_M src tgt)) as [[U S] Vh]. destruct HT as [_ HT].
  rewrite (resid_ext _ _ HT). exact (svdtf_optimal src tgt U S Vh Hs Hc A t HA).
Qed.
Theorem svdstf_call_optimal (src tgt : cloudR) :
  sizes_ok src tgt = true -> svd_contract svd (svdstf_H src tgt) -> 0 < sumsq (centered src) ->
  (let '(U, D, V) := svd (svdstf_H src tgt) in 1 / 100000 < fst (fst (svdstf_mat true src tgt U D V))) ->
  exists X, svdstf svd true src tgt = Some X /\ unitq (fst (snd X)) /\ 0 < snd (snd X) /\
    forall c A t, 0 <= c -> rot A -> resid (Sim3_act X) src tgt <= resid (sim_apply c A t) src tgt.
Proof.
  intros Hs Hc Hx Hsc. pose proof (svdstf_returns svd true src tgt Hs Hc) as HR.
  unfold svd_contract in Hc. destruct (svd (svdstf_H src tgt)) as [[U D] V].
  destruct (HR Hsc) as (X & EX & Hq & Esc & Hact). exists X. split; [exact EX|]. split; [exact Hq|].
  split; [rewrite Esc; lra|]. intros c A t Hc0 HA. rewrite (resid_ext _ _ Hact).
  exact (proj2 (proj2 (svdstf_optimal src tgt U D V Hs Hc Hx)) c A t Hc0 HA).
Qed.

(* ---------------------------------------------------------------- (c) svdtf(points, T0 @ points) = T0 *)
Theorem svdtf_call_returns_T0 (T0 : se3R) (src : cloudR) :
  unitq (snd T0) -> noncollinear src -> svd_contract svd (svdtf_M src (se3_cloud T0 src)) ->
  exists T, svdtf svd src (se3_cloud T0 src) = Some T /\ fst T = fst T0 /\ qsame (snd T0) (snd T).
Proof.
  intros Hq0 Hnc Hc. rewrite se3_cloud_rigid in *.
  destruct (svdtf_call_exact_unique svd src _ _ _ eq_refl Hnc (unitq_rot _ Hq0) Hc) as (T & ET & Hq & E1 & E2 & _).
  exists T. split; [exact ET|]. split; [exact E1|]. apply same_matrix_qsame; [exact Hq0 | exact Hq | now symmetry].
Qed.
End Called.

(* ---------------------------------------------------------------- (d) EPnP *)
(* BetaObjective.forward at the exact candidate: the six control-point distances agree *)
Definition ctrl_nth (c : ctrlR) (i : nat) : vec3R :=
  let '(c0, c1, c2, c3) := c in match i with O => c0 | 1%nat => c1 | 2%nat => c2 | _ => c3 end.
Definition beta_pairs : list (nat * nat) := [(0, 1); (0, 2); (0, 3); (1, 2); (1, 3); (2, 3)]%nat.
(* dist_w - dist_c *)
Definition beta_objective (base_w base_c : ctrlR) : list R :=
  map (fun ij => vnormR (vsub (ctrl_nth base_w (fst ij)) (ctrl_nth base_w (snd ij)))
               - vnormR (vsub (ctrl_nth base_c (fst ij)) (ctrl_nth base_c (snd ij)))) beta_pairs.
Lemma ctrl_nth_move A t c i : ctrl_nth (ctrl_move A t c) i = rigid_apply A t (ctrl_nth c i).
Proof. destruct c as [[[c0 c1] c2] c3]. destruct i as [|[|[|]]]; reflexivity. Qed.
Theorem epnp_refine_residual_zero (A : mat3R) (t : vec3R) (cw : ctrlR) : rot A ->
  beta_objective cw (ctrl_move A t cw) = repeat 0 6.
Proof.
  intros [HA _]. unfold beta_objective, beta_pairs. cbn [map repeat fst snd].
  assert (E : forall i j, vnormR (vsub (ctrl_nth cw i) (ctrl_nth cw j))
                          - vnormR (vsub (ctrl_nth (ctrl_move A t cw) i) (ctrl_nth (ctrl_move A t cw) j)) = 0).
  { intros i j. rewrite !ctrl_nth_move, rigid_diff. unfold vnormR. rewrite (sqnorm_orth A _ HA). ring. }
  now rewrite !E.
Qed.

(* the solve contract has exactly one solution for affinely independent control points *)
Definition ctrl_det (c : ctrlR) : R :=
  let '(c0, c1, c2, c3) := c in mdet3 (vsub c1 c0, vsub c2 c0, vsub c3 c0).
Theorem alpha_unique (cw : ctrlR) (a a' : vec4R) (p : vec3R) :
  ctrl_det cw <> 0 -> alpha_ok cw a p -> alpha_ok cw a' p -> a = a'.
Proof.
  destruct cw as [[[c0 c1] c2] c3]. destruct a as [[[a0 a1] a2] a3]. destruct a' as [[[b0 b1] b2] b3].
  unfold alpha_ok, ctrl_det. intros HD [Hs Hp] [Hs' Hp']. rewrite <- Hp' in Hp. clear Hp'.
  destruct c0 as [[x0 y0] z0], c1 as [[x1 y1] z1], c2 as [[x2 y2] z2], c3 as [[x3 y3] z3].
  cbv [ctrl_comb] in Hp. al_unfold. injection Hp as E1 E2 E3.
  set (D := (x1 - x0) * ((y2 - y0) * (z3 - z0) - (z2 - z0) * (y3 - y0)) +
            (y1 - y0) * ((z2 - z0) * (x3 - x0) - (x2 - x0) * (z3 - z0)) +
            (z1 - z0) * ((x2 - x0) * (y3 - y0) - (y2 - y0) * (x3 - x0))) in *.
  assert (H1 : D * (a1 - b1) = 0) by (unfold D; nsatz).
  assert (H2 : D * (a2 - b2) = 0) by (unfold D; nsatz).
  assert (H3 : D * (a3 - b3) = 0) by (unfold D; nsatz).
  assert (HD' : D <> 0) by exact HD. clearbody D. clear HD E1 E2 E3.
  apply Rmult_integral in H1, H2, H3.
  assert (F1 : a1 = b1) by (destruct H1 as [H1 | H1]; [contradiction | clear - H1; lra]).
  assert (F2 : a2 = b2) by (destruct H2 as [H2 | H2]; [contradiction | clear - H2; lra]).
  assert (F3 : a3 = b3) by (destruct H3 as [H3 | H3]; [contradiction | clear - H3; lra]).
  assert (F0 : a0 = b0) by (clear - Hs Hs' F1 F2 F3; lra). subst. reflexivity.
Qed.
Theorem alpha_exists (cw : ctrlR) (p : vec3R) : ctrl_det cw <> 0 -> exists a, alpha_ok cw a p.
Proof.
  destruct cw as [[[c0 c1] c2] c3]. unfold ctrl_det. intros HD.
  set (D := mdet3 (vsub c1 c0, vsub c2 c0, vsub c3 c0)) in *.
  set (a1 := mdet3 (vsub p c0, vsub c2 c0, vsub c3 c0) / D).
  set (a2 := mdet3 (vsub c1 c0, vsub p c0, vsub c3 c0) / D).
  set (a3 := mdet3 (vsub c1 c0, vsub c2 c0, vsub p c0) / D).
  exists (1 - a1 - a2 - a3, a1, a2, a3). split; [ring|].
  unfold a1, a2, a3, D in *. clear a1 a2 a3 D.
  destruct c0 as [[x0 y0] z0], c1 as [[x1 y1] z1], c2 as [[x2 y2] z2], c3 as [[x3 y3] z3], p as [[x y] z].
  cbv [ctrl_comb]. al_unfold. split_pairs; field; exact HD.
Qed.
(* _svd_basis: controls = center + sqrt(s_i) * (row i of vh.mT): affinely independent when s_i > 0 *)
Definition svd_basis (center : vec3R) (s : vec3R) (Vh : mat3R) : ctrlR :=
  let V := mtrans Vh in
  (center, vadd center (vscale (sqrt (vx s)) (mr0 V)), vadd center (vscale (sqrt (vy s)) (mr1 V)),
   vadd center (vscale (sqrt (vz s)) (mr2 V))).
Theorem svd_basis_independent (center s : vec3R) (Vh : mat3R) :
  orth Vh -> 0 < vx s -> 0 < vy s -> 0 < vz s -> ctrl_det (svd_basis center s Vh) <> 0.
Proof.
  intros HV H1 H2 H3.
  assert (E : ctrl_det (svd_basis center s Vh) = sqrt (vx s) * sqrt (vy s) * sqrt (vz s) * mdet3 Vh).
  { unfold ctrl_det, svd_basis. set (r1 := sqrt (vx s)). set (r2 := sqrt (vy s)). set (r3 := sqrt (vz s)).
    clearbody r1 r2 r3. clear. destruct_tuples. al_unfold. ring. }
  rewrite E. pose proof (sqrt_lt_R0 _ H1) as P1. pose proof (sqrt_lt_R0 _ H2) as P2. pose proof (sqrt_lt_R0 _ H3) as P3.
  pose proof (Rmult_lt_0_compat _ _ (Rmult_lt_0_compat _ _ P1 P2) P3) as P.
  set (r := sqrt (vx s) * sqrt (vy s) * sqrt (vz s)) in *. clearbody r. clear - P HV.
  destruct (orth_det_cases Vh HV) as [-> | ->]; lra.
Qed.
