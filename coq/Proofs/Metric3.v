(* C19 (ape / rpe, part 2):
   - rpe is unchanged by left multiplication of either trajectory ALSO with origin alignment on
     (align_origin = True), for every error type and pairing option;
   - rpe of a trajectory against itself RETURNS (and every statistic is 0) for frame pairing with
     1 <= delta < number of poses - so the "whenever it returns" of rpe_identical_zero is not vacuous;
   - ape / rpe of a trajectory against itself with SVD alignment on: zero statistics given that the
     alignment oracle maps a cloud aligned with itself to the identity. *)
From Coq Require Import Reals Lra Psatz List ZArith Lia.
Import ListNotations.
From PV Require Import Base.Num Base.RTac Base.ListAux Model.LieGroup Model.LieExp Model.LieLog Model.Spline Model.Metric
  Proofs.LieGroup Proofs.LieExp Proofs.LieLog Proofs.Spline Proofs.Metric.
Local Open Scope R_scope.
#[local] Remove Hints NumQ NumZ : typeclass_instances.

(* aligning with an SE3 element lifted to Sim3 is left multiplication *)
Lemma align_pose_se3 (X Y : se3R) : align_pose (se3_to_sim3 X) Y = SE3_mul X Y.
Proof. unfold align_pose, se3_to_sim3, sim3_to_se3. destruct X as [t q], Y as [t' q']. lie_ring. Qed.

Lemma origin_shift (gr ge r0 e0 e : se3R) : valid_SE3 gr -> valid_SE3 ge -> valid_SE3 r0 -> valid_SE3 e0 ->
  SE3_mul (SE3_mul (SE3_mul gr r0) (SE3_inv (SE3_mul ge e0))) (SE3_mul ge e)
  = SE3_mul gr (SE3_mul (SE3_mul r0 (SE3_inv e0)) e).
Proof.
  intros Hgr Hge Hr0 He0.
  assert (H1 : valid_SE3 (SE3_mul gr r0)) by (now apply valid_SE3_mul).
  assert (H2 : valid_SE3 (SE3_inv (SE3_mul ge e0))) by (apply valid_SE3_inv; now apply valid_SE3_mul).
  assert (H3 : valid_SE3 (SE3_inv e0)) by (now apply valid_SE3_inv).
  rewrite (SE3_mul_assoc (SE3_mul gr r0)) by assumption. rewrite SE3_rel_left by assumption.
  rewrite (SE3_mul_assoc gr r0) by assumption. now rewrite (SE3_mul_assoc r0 (SE3_inv e0) e) by assumption.
Qed.

Section RpeLeftOrigin.
Variable angleF : @mat3 R -> R.
Variable rad2degF : R -> R.
Variable svdstf : list vec3R -> list vec3R -> bool -> sim3R.
Local Notation rpeR := (rpe sqrt angleF rad2degF svdstf).

Theorem rpe_left_invariant_origin (gr ge : se3R) rstamp rpose estamp epose et diff off origin bd delta di rtol all rpair :
  valid_SE3 gr -> valid_SE3 ge -> Forall valid_SE3 rpose -> Forall valid_SE3 epose ->
  rpeR rstamp (map (SE3_mul gr) rpose) estamp (map (SE3_mul ge) epose) et diff off false false origin bd delta di rtol all rpair
  = rpeR rstamp rpose estamp epose et diff off false false origin bd delta di rtol all rpair.
Proof.
  intros Hgr Hge Hr He. destruct origin; [|now apply rpe_left_invariant].
  unfold rpe. rewrite !mk_stamped_map.
  destruct (mk_stamped rstamp rpose) as [rt|] eqn:Ert; [|reflexivity].
  destruct (mk_stamped estamp epose) as [etr|] eqn:Eet; [|reflexivity]. cbn [option_map].
  rewrite associate_map.
  destruct (associate rt etr diff off) as [[rp ep]|] eqn:Ea; [|reflexivity]. cbn [option_map fst snd].
  apply mk_stamped_snd in Ert. apply mk_stamped_snd in Eet.
  destruct (associate_valid rt etr diff off rp ep ltac:(now rewrite Ert) ltac:(now rewrite Eet) Ea) as [Hrp Hep].
  unfold trans_of. cbn [orb].
  destruct rp as [|r0 rp']; [reflexivity|]. destruct ep as [|e0 ep']; [reflexivity|].
  cbn [map].
  set (T' := se3_to_sim3 (SE3_mul (SE3_mul gr r0) (SE3_inv (SE3_mul ge e0)))).
  set (T0 := se3_to_sim3 (SE3_mul r0 (SE3_inv e0))).
  change (align_pose T' (SE3_mul ge e0) :: map (align_pose T') (map (SE3_mul ge) ep'))
    with (map (align_pose T') (map (SE3_mul ge) (e0 :: ep'))).
  change (align_pose T0 e0 :: map (align_pose T0) ep') with (map (align_pose T0) (e0 :: ep')).
  change (SE3_mul gr r0 :: map (SE3_mul gr) rp') with (map (SE3_mul gr) (r0 :: rp')).
  subst T' T0.
  set (rp := r0 :: rp') in *. set (ep := e0 :: ep') in *.
  assert (Hr0 : valid_SE3 r0) by (now inversion Hrp). assert (He0 : valid_SE3 e0) by (now inversion Hep).
  set (T := SE3_mul r0 (SE3_inv e0)).
  assert (HT : valid_SE3 T) by (apply valid_SE3_mul; [assumption|now apply valid_SE3_inv]).
  assert (Eep : map (align_pose (se3_to_sim3 (SE3_mul (SE3_mul gr r0) (SE3_inv (SE3_mul ge e0))))) (map (SE3_mul ge) ep)
                = map (SE3_mul gr) (map (align_pose (se3_to_sim3 T)) ep)).
  { rewrite !map_map. apply map_ext. intros e. rewrite !align_pose_se3. now apply origin_shift. }
  rewrite Eep. clear Eep.
  assert (Hep' : Forall valid_SE3 (map (align_pose (se3_to_sim3 T)) ep)).
  { rewrite Forall_forall in *. intros x Hx. apply in_map_iff in Hx. destruct Hx as (e & <- & Hin).
    rewrite align_pose_se3. apply valid_SE3_mul; [assumption|now apply Hep]. }
  set (ep2 := map (align_pose (se3_to_sim3 T)) ep) in *.
  assert (Epair : pair_id sqrt (if rpair then map (SE3_mul gr) rp else map (SE3_mul gr) ep2) bd delta di rtol all
                  = pair_id sqrt (if rpair then rp else ep2) bd delta di rtol all)
    by (destruct rpair; now apply pair_id_left).
  rewrite Epair. clear Epair. destruct (pair_id sqrt _ bd delta di rtol all) as [[src tar]|]; [|reflexivity].
  now rewrite !rel_poses_left.
Qed.
End RpeLeftOrigin.

(* ================================================================== rpe of a trajectory against itself returns *)
Lemma gather_some {A} (l : list A) ids : Forall (fun i => (i < length l)%nat) ids ->
  exists r, gather l ids = Some r /\ length r = length ids.
Proof.
  induction ids as [|i ids IH]; intros H; [now exists []|].
  inversion H as [|? ? Hi Hids]; subst. destruct (IH Hids) as (r & Hr & Hl).
  cbn [gather]. destruct (nth_error l i) as [a|] eqn:Ea.
  - rewrite Hr. exists (a :: r). split; [reflexivity|]. cbn. now rewrite Hl.
  - apply nth_error_None in Ea. lia.
Qed.
Lemma In_removelast {A} (l : list A) x : In x (removelast l) -> In x l.
Proof.
  induction l as [|a l IH]; [intros []|]. cbn [removelast]. destruct l as [|b l]; [intros []|].
  intros [->|H]; [now left|right; now apply IH].
Qed.
Lemma length_removelast {A} (l : list A) : length (removelast l) = (length l - 1)%nat.
Proof. rewrite removelast_firstn_len, firstn_length. lia. Qed.

Lemma pairs_by_frames_ok (n : nat) (delta : Z) (all : bool) : (1 <= delta)%Z -> (Z.to_nat delta < n)%nat ->
  exists src tar, pairs_by_frames n delta all = Some (src, tar) /\ src <> [] /\ length src = length tar /\
    Forall (fun i => (i < n)%nat) src /\ Forall (fun i => (i < n)%nat) tar.
Proof.
  intros Hd Hn. unfold pairs_by_frames. replace (delta <? 1)%Z with false by (symmetry; apply Z.ltb_ge; lia).
  set (d := Z.to_nat delta) in *. assert (Hd1 : (1 <= d)%nat) by (unfold d; lia).
  destruct all.
  - set (ids1 := filter (fun i => (i + d <? n)%nat) (seq 0 n)).
    exists ids1, (map (fun i => (i + d)%nat) ids1). split; [reflexivity|].
    assert (H0 : In 0%nat ids1).
    { apply filter_In. split; [apply in_seq; lia|]. apply Nat.ltb_lt. lia. }
    split; [intros E; rewrite E in H0; destruct H0|]. split; [now rewrite map_length|].
    split; apply Forall_forall.
    + intros i Hi. apply filter_In in Hi. destruct Hi as [Hi _]. apply in_seq in Hi. lia.
    + intros i Hi. apply in_map_iff in Hi. destruct Hi as (j & <- & Hj). apply filter_In in Hj.
      destruct Hj as [_ Hj]. now apply Nat.ltb_lt in Hj.
  - set (m := ((n + d - 1) / d)%nat). set (ids := map (fun j => (j * d)%nat) (seq 0 m)).
    assert (Hm : (2 <= m)%nat) by (apply Nat.div_le_lower_bound; lia).
    assert (Hlen : length ids = m) by (unfold ids; now rewrite map_length, seq_length).
    assert (Hall : forall x, In x ids -> (x < n)%nat).
    { intros x Hx. apply in_map_iff in Hx. destruct Hx as (j & <- & Hj). apply in_seq in Hj.
      pose proof (Nat.mul_div_le (n + d - 1) d ltac:(lia)) as Hle. fold m in Hle. nia. }
    exists (removelast ids), (tl ids). split; [reflexivity|].
    assert (Hl1 : length (removelast ids) = (m - 1)%nat) by (rewrite length_removelast; lia).
    assert (Hl2 : length (tl ids) = (m - 1)%nat) by (destruct ids; cbn in *; lia).
    split; [intros E; rewrite E in Hl1; cbn in Hl1; lia|]. split; [lia|].
    split; apply Forall_forall; intros x Hx; apply Hall.
    + now apply In_removelast.
    + destruct ids; [destruct Hx|now right].
Qed.

Lemma rel_poses_some (traj : list se3R) src tar : src <> [] -> length src = length tar ->
  Forall (fun i => (i < length traj)%nat) src -> Forall (fun i => (i < length traj)%nat) tar ->
  exists rr, rel_poses traj src tar = Some rr /\ rr <> [].
Proof.
  intros Hne Hlen Hs Ht. unfold rel_poses.
  destruct (gather_some traj src Hs) as (a & -> & Ha). destruct (gather_some traj tar Ht) as (b & -> & Hb).
  eexists; split; [reflexivity|]. intros E. apply (f_equal (@length _)) in E.
  rewrite map_length, combine_length in E. cbn in E. destruct src; [congruence|]. cbn in *. lia.
Qed.

Section IdenticalReturns.
Variable angleF : @mat3 R -> R.
Variable rad2degF : R -> R.
Variable svdstf : list vec3R -> list vec3R -> bool -> sim3R.
Hypothesis angle_id : angleF mid3 = 0.
Hypothesis deg_zero : rad2degF 0 = 0.

(* frame pairing, 1 <= delta < number of poses: rpe of a trajectory against itself returns, and all
   statistics are 0 - every error type, origin on or off, all = True or False, rpair either way *)
Theorem rpe_identical_zero_frames st P tr et diff origin delta di rtol all rpair :
  mk_stamped st P = Some tr -> NoDup (map fst tr) -> Forall valid_SE3 P -> 0 < diff ->
  (1 <= di)%Z -> (Z.to_nat di < length P)%nat ->
  exists s, rpe sqrt angleF rad2degF svdstf st P st P et diff 0 false false origin false delta di rtol all rpair = Some s /\
            zero_stats s.
Proof.
  intros Hm Hnd HP Hd Hdi Hn.
  destruct (pairs_by_frames_ok (length P) di all Hdi Hn) as (src & tar & Hp & Hne & Hlen & Hs & Ht).
  destruct (rel_poses_some P src tar Hne Hlen Hs Ht) as (rr & Hrr & Hrne).
  assert (Hret : rpe sqrt angleF rad2degF svdstf st P st P et diff 0 false false origin false delta di rtol all rpair
                 = compute_stats sqrt (errors sqrt angleF rad2degF false et rr rr)).
  { unfold rpe. rewrite Hm.
    rewrite (associate_self tr diff (mk_stamped_ne _ _ _ Hm) Hnd Hd). rewrite (mk_stamped_snd _ _ _ Hm).
    assert (HneP : P <> []) by (intros ->; cbn in Hm; discriminate).
    rewrite (trans_of_same svdstf origin P HneP HP). rewrite map_align_id.
    replace (if rpair then P else P) with P by (now destruct rpair).
    unfold pair_id. rewrite Hp, Hrr. reflexivity. }
  rewrite Hret. apply compute_stats_zeros.
  - destruct rr; [congruence|]. discriminate.
  - apply errors_same; try assumption. eapply rel_poses_valid; eassumption.
Qed.
End IdenticalReturns.

(* ================================================================== identical trajectories with SVD alignment on *)
Section IdenticalAligned.
Variable angleF : @mat3 R -> R.
Variable rad2degF : R -> R.
Variable svdstf : list vec3R -> list vec3R -> bool -> sim3R.
Hypothesis angle_id : angleF mid3 = 0.
Hypothesis deg_zero : rad2degF 0 = 0.

(* GIVEN that the alignment oracle returns the identity for the trajectory's translations aligned
   with themselves (Umeyama's exact recovery, C17, for non-degenerate clouds) *)
Theorem ape_identical_zero_aligned st P tr et diff al sc origin :
  mk_stamped st P = Some tr -> NoDup (map fst tr) -> Forall valid_SE3 P -> 0 < diff ->
  svdstf (map fst P) (map fst P) sc = Sim3_id ->
  exists s, ape sqrt angleF rad2degF svdstf st P st P et diff 0 al sc origin = Some s /\ zero_stats s.
Proof.
  intros Hm Hnd HP Hd Hsvd. destruct (al || sc)%bool eqn:Eflag.
  - unfold ape. rewrite Hm.
    rewrite (associate_self tr diff (mk_stamped_ne _ _ _ Hm) Hnd Hd). rewrite (mk_stamped_snd _ _ _ Hm).
    unfold trans_of. rewrite Eflag, Hsvd. rewrite map_align_id.
    apply compute_stats_zeros; [|now apply errors_same].
    destruct P as [|p P']; [cbn in Hm; discriminate|]. discriminate.
  - apply Bool.orb_false_iff in Eflag. destruct Eflag as [-> ->]. now apply (ape_identical_zero _ _ _ angle_id deg_zero st P tr).
Qed.
End IdenticalAligned.
