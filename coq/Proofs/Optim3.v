(* More proofs for property C07 (Model/Optim.v); continues Proofs/Optim.v, Proofs/Optim2.v.
   Part J (R): the trials of ONE LevenbergMarquardt.step call as a history of any length; the damping in the
               documented matrix form A + lam diag(A).
   Part K (R): the GN step is a weighted least-squares minimiser (shapes derived, objective explicit);
               minimisers = solutions of the normal equations; minimum norm of the pseudo-inverse solution.
   Part L (any number type): the update entry by entry / item by item in terms of the step vector. *)
From Coq Require Import ZArith Reals Lra Lia List Arith Bool.
Import ListNotations.
From PV Require Import Base.Num Base.Mat Model.LieGroup Model.LieExp Model.Optim Proofs.Optim Proofs.Optim2.

(* ===================================================================================== *)
(*  Part L: the update in terms of the step vector                                        *)
(* ===================================================================================== *)
Section UpdateEntries.
Context {F : Type} {NF : Num F}.
Variable gexp : nat -> list F -> list F.
Notation param := (@param F).
Notation pdflt := (@pdflt F).

Lemma toffset_bound : forall (ps : list param) i, i < length ps -> preq (nth i ps pdflt) = true ->
  toffset ps i + pnumel (nth i ps pdflt) <= sumnat (map (@pnumel F) (filter (@preq F) ps)).
Proof.
  induction ps as [|p ps IH]; intros i Hi Hq; [cbn in Hi; lia|].
  destruct i as [|i].
  - cbn [nth] in *. unfold toffset. cbn [firstn filter]. rewrite Hq. cbn. unfold sumnat. lia.
  - cbn [nth] in *. cbn in Hi. specialize (IH i ltac:(lia) Hq).
    unfold toffset in *. cbn [firstn filter]. destruct (preq p); cbn [map sumnat fold_right] in *; unfold sumnat in *; lia.
Qed.

(* the slice of parameter i: step[toffset : toffset + numel] *)
Definition slice_of (ps : list param) (i : nat) (step : list F) : list F :=
  firstn (pnumel (nth i ps pdflt)) (skipn (toffset ps i) step).
Lemma slice_length (ps : list param) i step : i < length ps -> preq (nth i ps pdflt) = true ->
  length step = sumnat (map (@pnumel F) (filter (@preq F) ps)) ->
  length (slice_of ps i step) = pnumel (nth i ps pdflt).
Proof.
  intros Hi Hq Hl. unfold slice_of. rewrite firstn_length_le; [reflexivity|].
  rewrite skipn_length. pose proof (toffset_bound ps i Hi Hq). lia.
Qed.
Lemma slice_nth (ps : list param) i step k d : k < pnumel (nth i ps pdflt) ->
  nth k (slice_of ps i step) d = nth (toffset ps i + k) step d.
Proof. intros Hk. unfold slice_of. rewrite nth_firstn_lt by assumption. apply nth_skipn_add. Qed.

(* item t (width w) of the slice of a parameter with n items = step[toffset + t w : toffset + (t+1) w] *)
Lemma slice_chunk (ps : list param) i step w n t : pnumel (nth i ps pdflt) = n * w -> t < n ->
  chunk w t (slice_of ps i step) = firstn w (skipn (toffset ps i + t * w) step).
Proof.
  intros Hn Ht. unfold chunk, slice_of. rewrite Hn, skipn_firstn_comm, firstn_firstn, skipn_add.
  f_equal. nia.
Qed.

(* Euclidean parameter i, entry k:  p[k] <- p[k] + step[toffset + k] *)
Lemma update_euclid_entries (ps ps' : list param) step i :
  update_parameter gexp ps step = Some ps' -> i < length ps ->
  preq (nth i ps pdflt) = true -> pk (nth i ps pdflt) = Euclid ->
  length (pdata (nth i ps' pdflt)) = pnumel (nth i ps pdflt) /\
  forall k, k < pnumel (nth i ps pdflt) ->
    vget (pdata (nth i ps' pdflt)) k = add (vget (pdata (nth i ps pdflt)) k) (vget step (toffset ps i + k)).
Proof.
  intros HU Hi Hq Hk.
  assert (Hl : length step = sumnat (map (@pnumel F) (filter (@preq F) ps))) by (apply (update_returns_iff gexp); eauto).
  destruct (update_split gexp ps step Hl) as (ps2 & HU2 & _ & Hn). rewrite HU in HU2. inversion HU2; subst ps2; clear HU2.
  rewrite (Hn i Hi), Hq. fold (slice_of ps i step).
  destruct (param_add_euclid gexp (nth i ps pdflt) (slice_of ps i step) Hk) as (Hd & _ & _). rewrite Hd.
  pose proof (slice_length ps i step Hi Hq Hl) as HS.
  split.
  - rewrite zipw_length, HS. unfold pnumel. apply Nat.min_id.
  - intros k Hkk. unfold vget. rewrite (zipw_nth _ _ _ _ zero zero zero) by (unfold pnumel in *; lia).
    now rewrite slice_nth.
Qed.

(* LieTensor parameter i with n items of width w: item t <- add_(item t, step[toffset + t w : toffset + (t+1) w]) *)
Lemma update_lie_items (ps ps' : list param) step i n :
  update_parameter gexp ps step = Some ps' -> i < length ps ->
  preq (nth i ps pdflt) = true -> pk (nth i ps pdflt) <> Euclid ->
  pnumel (nth i ps pdflt) = n * pwidth (pk (nth i ps pdflt)) ->
  length (pdata (nth i ps' pdflt)) = pnumel (nth i ps pdflt) /\
  forall t, t < n ->
    let w := pwidth (pk (nth i ps pdflt)) in
    chunk w t (pdata (nth i ps' pdflt)) =
    add_item gexp (pk (nth i ps pdflt)) (chunk w t (pdata (nth i ps pdflt)))
             (firstn w (skipn (toffset ps i + t * w) step)).
Proof.
  intros HU Hi Hq Hk Hn.
  assert (Hl : length step = sumnat (map (@pnumel F) (filter (@preq F) ps))) by (apply (update_returns_iff gexp); eauto).
  destruct (update_split gexp ps step Hl) as (ps2 & HU2 & _ & Hnth). rewrite HU in HU2. inversion HU2; subst ps2; clear HU2.
  rewrite (Hnth i Hi), Hq. fold (slice_of ps i step).
  pose proof (slice_length ps i step Hi Hq Hl) as HS. rewrite Hn in HS.
  destruct (param_add_chunks gexp (nth i ps pdflt) (slice_of ps i step) n Hk Hn HS) as [HL HC].
  split; [exact HL|]. intros t Ht w. subst w. rewrite (HC t Ht). now rewrite (slice_chunk ps i step _ n t Hn Ht).
Qed.
End UpdateEntries.

(* group items: X_t <- Exp(step[o : o + manifold dim]) X_t, o = toffset + t (manifold dim + 1); algebra items:
   x_t <- x_t + step[o : o + manifold dim], o = toffset + t (manifold dim) *)
Lemma firstn_firstn_le {X} (a b : nat) (l : list X) : a <= b -> firstn a (firstn b l) = firstn a l.
Proof. intros H. rewrite firstn_firstn. now rewrite Nat.min_l. Qed.

(* ===================================================================================== *)
(*  Part J (R): one LM call as a history of trials                                        *)
(* ===================================================================================== *)
#[local] Remove Hints NumQ NumZ : typeclass_instances.
Local Open Scope R_scope.

Section LMHistory.
Variable gexp : nat -> list R -> list R.
Variable solver : @mat R -> list R -> option (list R).

(* the trials of one call: trial j+1 works on the matrix trial j left behind (A is modified in place);
   script = (damping at the solve, parameter values the trial starts from), outs = what each trial produced.
   The parameter values are arbitrary: every accept / reject history is covered. *)
Fixpoint lm_chain (Aprev JT : @mat R) (Rv : list R) (script : list (R * list (@param R))) (outs : list (@trial_out R)) : Prop :=
  match script, outs with
  | [], [] => True
  | (lam, ps) :: script', o :: outs' =>
      lm_trial gexp solver Aprev JT Rv lam ps = TDone o /\ lm_chain (tA o) JT Rv script' outs'
  | _, _ => False
  end.

Definition odflt : @trial_out R := {| tA := []; tb := []; tD := []; tP := [] |}.

Lemma lm_chain_history : forall script outs A0 JT Rv, lm_chain A0 JT Rv script outs ->
  length outs = length script /\
  forall k, (k < length script)%nat ->
    let o := nth k outs odflt in
    tA o = lm_A A0 (map fst (firstn (S k) script)) /\
    tb o = lm_b JT Rv /\
    solver (tA o) (tb o) = Some (tD o) /\
    update_parameter gexp (snd (nth k script (0, []))) (tD o) = Some (tP o).
Proof.
  induction script as [|[lam ps] script IH]; intros outs A0 JT Rv H.
  - destruct outs; [|contradiction]. split; [reflexivity|]. intros k Hk. cbn in Hk. lia.
  - destruct outs as [|o outs]; [contradiction|]. destruct H as [Ht Hc].
    destruct (lm_trial_system gexp solver _ _ _ _ _ _ Ht) as (HA & Hb & HD & HU).
    destruct (IH outs (tA o) JT Rv Hc) as [HL Hk]. split; [cbn; now rewrite HL|].
    intros [|k] Hlt.
    + cbn [nth firstn map fst snd]. cbv zeta. repeat split; assumption.
    + cbn in Hlt. specialize (Hk k ltac:(lia)). cbv zeta in Hk |- *. cbn [nth]. destruct Hk as (K1 & K2 & K3 & K4).
      repeat split; try assumption.
      rewrite K1, HA. cbn [firstn map fst]. reflexivity.
Qed.

(* A.diagonal().add_(A.diagonal() * damping) is A <- A + damping * diag(A) *)
Definition mdiag (A : @mat R) : @mat R :=
  mkmat (mrows A) (mcols A) (fun i j => if Nat.eqb i j then mget A i j else 0).
Lemma lm_damp_documented n (lam : R) (A : @mat R) : wf n n A ->
  lm_damp lam A = madd A (mscale lam (mdiag A)).
Proof.
  intros HA. assert (Hn := wf_pos_r _ _ _ HA).
  assert (HD : wf n n (mdiag A)).
  { unfold mdiag. rewrite (wf_rows _ _ _ HA), (wf_cols _ _ _ HA). now apply wf_mkmat. }
  apply (mat_ext n n); [now apply wf_map_diag | now apply wf_madd |].
  intros i j Hi Hj. unfold lm_damp. rewrite (mget_map_diag n) by assumption.
  rewrite (mget_madd n n), (mget_mscale n n) by assumption.
  unfold mdiag. rewrite (wf_rows _ _ _ HA), (wf_cols _ _ _ HA), mget_mkmat by assumption.
  destruct (Nat.eqb i j); cbn [add mul NumR]; ring.
Qed.
Lemma wf_lm_A n : forall lams (A : @mat R), wf n n A -> wf n n (lm_A A lams).
Proof.
  induction lams as [|l lams IH]; intros A HA; [exact HA|].
  unfold lm_A. cbn [fold_left]. apply IH. now apply wf_map_diag.
Qed.
End LMHistory.

(* ===================================================================================== *)
(*  Part K (R): least squares                                                              *)
(* ===================================================================================== *)
Section LeastSquares.
Implicit Types A J P : @mat R.

Lemma vget_vneg (v : list R) i : (i < length v)%nat -> vget (vneg v) i = - vget v i.
Proof. intros Hi. unfold vget, vneg. now rewrite (nth_map_lt _ _ _ _ 0). Qed.
Lemma length_vneg (v : list R) : length (vneg v) = length v.
Proof. apply map_length. Qed.
Lemma vminus_vneg (u v : list R) : length u = length v -> vminus u (vneg v) = vplus u v.
Proof.
  intros H. apply (vec_ext (length u)); [apply length_vminus | apply length_vplus |].
  intros i Hi. rewrite vget_vminus, vget_vplus, vget_vneg by lia. cbn [add sub NumR]. ring.
Qed.

Lemma vdot_zero_entries (v : list R) : Mat.vdot v v = 0 -> forall i, (i < length v)%nat -> vget v i = 0.
Proof.
  intros H. destruct (nonzero_dec v) as [Hn|Hz]; [|exact Hz].
  pose proof (vdot_self_pos v Hn). lra.
Qed.
Lemma vdot_zero_l (u v : list R) : (forall i, (i < length u)%nat -> vget u i = 0) -> Mat.vdot u v = 0.
Proof. intros H. unfold Mat.vdot. apply sumn_zero. intros k Hk. rewrite H by assumption. cbn [mul NumR]. ring. Qed.

(* Pythagoras at a solution of the normal equations *)
Lemma normal_eq_pythagoras n m A (b x : list R) : wf n m A -> length b = n -> length x = m ->
  mapply (mtr A) (mapply A x) = mapply (mtr A) b ->
  forall y, length y = m ->
    sqn (vminus (mapply A y) b) = sqn (vminus (mapply A x) b) + sqn (mapply A (vminus y x)).
Proof.
  intros HA Hb Hx Hne y Hy.
  assert (LAx : length (mapply A x) = n) by (now apply (length_mapply n m)).
  assert (LAy : length (mapply A y) = n) by (now apply (length_mapply n m)).
  set (r := vminus (mapply A x) b). set (e := vminus y x).
  assert (Lr : length r = n) by (unfold r; now rewrite length_vminus).
  assert (Le : length e = m) by (unfold e; now rewrite length_vminus).
  assert (HAe : mapply A e = vminus (mapply A y) (mapply A x)) by (unfold e; now apply (mapply_vminus n m)).
  assert (Hdec : vminus (mapply A y) b = vplus r (mapply A e)).
  { rewrite HAe. unfold r. now apply (vminus_split _ _ _ n). }
  assert (LAe : length (mapply A e) = n) by (now apply (length_mapply n m)).
  assert (Hort : Mat.vdot r (mapply A e) = 0).
  { rewrite (vdot_adjoint n m) by assumption. unfold r.
    rewrite (mapply_vminus m n) by (eauto with wf). rewrite Hne.
    apply vdot_zero_l. intros k Hk. rewrite length_vminus in Hk.
    rewrite vget_vminus by assumption. cbn [sub NumR]. ring. }
  unfold sqn. rewrite Hdec.
  rewrite vdot_vplus_l by lia. rewrite !vdot_vplus_r by lia.
  rewrite Hort. rewrite (vdot_comm (mapply A e) r) by lia. rewrite Hort. cbn [add NumR]. lra.
Qed.

(* a vector with A e of zero length squared is in the kernel of A^T A *)
Lemma sqn_zero_kernel n m A (e : list R) : wf n m A -> length e = m -> sqn (mapply A e) = 0 ->
  forall i, (i < n)%nat -> vget (mapply A e) i = 0.
Proof.
  intros HA He H i Hi. apply vdot_zero_entries; [exact H|]. now rewrite (length_mapply n m).
Qed.

Definition is_ls_minimiser (m : nat) A (b x : list R) : Prop :=
  length x = m /\ forall y, length y = m -> sqn (vminus (mapply A x) b) <= sqn (vminus (mapply A y) b).

(* the minimisers of |A y - b|^2 are exactly the solutions of the normal equations (given one solution exists) *)
Lemma minimiser_normal_eq n m A (b x y : list R) : wf n m A -> length b = n -> length x = m ->
  mapply (mtr A) (mapply A x) = mapply (mtr A) b ->
  is_ls_minimiser m A b y -> mapply (mtr A) (mapply A y) = mapply (mtr A) b.
Proof.
  intros HA Hb Hx Hne [Hy Hmin].
  pose proof (normal_eq_pythagoras n m A b x HA Hb Hx Hne y Hy) as Hp.
  pose proof (Hmin x Hx) as Hle.
  assert (H0 : sqn (mapply A (vminus y x)) = 0).
  { pose proof (vdot_self_nonneg (mapply A (vminus y x))). unfold sqn in *. lra. }
  assert (Le : length (vminus y x) = m) by (now rewrite length_vminus).
  rewrite <- Hne.
  assert (HAe : mapply A (vminus y x) = vminus (mapply A y) (mapply A x)) by (now apply (mapply_vminus n m)).
  assert (LAx : length (mapply A x) = n) by (now apply (length_mapply n m)).
  assert (LAy : length (mapply A y) = n) by (now apply (length_mapply n m)).
  f_equal. apply (vec_ext n); try assumption.
  intros i Hi. pose proof (sqn_zero_kernel n m A _ HA Le H0 i Hi) as Hz.
  rewrite HAe, vget_vminus in Hz by lia. cbn [sub NumR] in Hz. lra.
Qed.

(* a solution of the normal equations that lies in the row space of A has the smallest norm among all of them *)
Lemma row_space_min_norm n m A (b x z : list R) : wf n m A -> length b = n -> length z = n ->
  x = mapply (mtr A) z -> mapply (mtr A) (mapply A x) = mapply (mtr A) b ->
  forall y, length y = m -> mapply (mtr A) (mapply A y) = mapply (mtr A) b -> sqn x <= sqn y.
Proof.
  intros HA Hb Hz Hx Hne y Hy Hney.
  assert (HAt : wf m n (mtr A)) by eauto with wf.
  assert (Lx : length x = m) by (rewrite Hx; now apply (length_mapply m n)).
  set (e := vminus y x). assert (Le : length e = m) by (unfold e; now rewrite length_vminus).
  assert (LAx : length (mapply A x) = n) by (now apply (length_mapply n m)).
  assert (LAy : length (mapply A y) = n) by (now apply (length_mapply n m)).
  assert (LAe : length (mapply A e) = n) by (now apply (length_mapply n m)).
  (* A^T A e = 0, hence |A e|^2 = e . A^T A e = 0, hence A e = 0 *)
  assert (HK : forall i, (i < m)%nat -> vget (mapply (mtr A) (mapply A e)) i = 0).
  { intros i Hi. unfold e. rewrite (mapply_vminus n m), (mapply_vminus m n) by assumption.
    rewrite Hne, Hney. rewrite vget_vminus by (now rewrite (length_mapply m n)). cbn [sub NumR]. ring. }
  assert (H0 : sqn (mapply A e) = 0).
  { unfold sqn. rewrite (vdot_adjoint n m) by assumption. apply vdot_zero_l.
    intros i Hi. rewrite (length_mapply m n) in Hi by assumption. now apply HK. }
  assert (Hxe : Mat.vdot x e = 0).
  { rewrite Hx. rewrite <- (vdot_adjoint n m) by assumption.
    rewrite vdot_comm by lia. apply vdot_zero_l. intros i Hi. rewrite LAe in Hi.
    now apply (sqn_zero_kernel n m A e). }
  assert (Hy' : y = vplus x e).
  { apply (vec_ext m); [assumption | now rewrite length_vplus |].
    intros i Hi. unfold e. rewrite vget_vplus, vget_vminus by lia. cbn [add sub NumR]. ring. }
  unfold sqn. rewrite Hy'. rewrite vdot_vplus_l by lia. rewrite !vdot_vplus_r by lia.
  rewrite (vdot_comm e x) by lia. rewrite Hxe.
  pose proof (vdot_self_nonneg e). cbn [add NumR]. lra.
Qed.

(* Moore-Penrose pseudo-inverse of A (the four Penrose equations) *)
Definition penrose n m A P : Prop :=
  wf m n P /\ mmul (mmul A P) A = A /\ mmul (mmul P A) P = P /\
  mtr (mmul A P) = mmul A P /\ mtr (mmul P A) = mmul P A.

(* x = P b solves the normal equations and lies in the row space: THE minimum-norm least-squares solution *)
Lemma pinv_normal_eq n m A P (b : list R) : wf n m A -> penrose n m A P -> length b = n ->
  mapply (mtr A) (mapply A (mapply P b)) = mapply (mtr A) b.
Proof.
  intros HA (HP & H1 & _ & H3 & _) Hb.
  rewrite <- (mapply_mmul n m n A P) by assumption.
  rewrite <- (mapply_mmul m n n (mtr A) (mmul A P)) by eauto with wf.
  f_equal. rewrite <- H3. rewrite <- (mtr_mmul n n m) by eauto with wf. now rewrite H1.
Qed.
Lemma pinv_row_space n m A P (b : list R) : wf n m A -> penrose n m A P -> length b = n ->
  mapply P b = mapply (mtr A) (mapply (mtr P) (mapply P b)).
Proof.
  intros HA (HP & _ & H2 & _ & H4) Hb.
  rewrite <- (mapply_mmul m n m (mtr A) (mtr P)) by eauto with wf.
  rewrite <- (mtr_mmul m n m P A) by assumption. rewrite H4.
  rewrite <- (mapply_mmul m m n (mmul P A) P) by eauto with wf. now rewrite H2.
Qed.
Lemma pinv_min_norm n m A P (b : list R) : wf n m A -> penrose n m A P -> length b = n ->
  is_ls_minimiser m A b (mapply P b) /\
  forall y, is_ls_minimiser m A b y -> sqn (mapply P b) <= sqn y.
Proof.
  intros HA HPen Hb. assert (HP : wf m n P) by apply HPen.
  assert (Lx : length (mapply P b) = m) by (now apply (length_mapply m n)).
  pose proof (pinv_normal_eq n m A P b HA HPen Hb) as Hne.
  split.
  - split; [exact Lx|]. now apply (normal_eq_minimises n m).
  - intros y Hy. assert (Ly : length y = m) by apply Hy.
    apply (row_space_min_norm n m A b _ (mapply (mtr P) (mapply P b))); try assumption.
    + apply (length_mapply n m). eauto with wf.
    + now apply (pinv_row_space n m).
    + now apply (minimiser_normal_eq n m A b (mapply P b) y).
Qed.

(* ---- the objective of the GN step, with the weight made explicit ---- *)
Definition wresid (W : option (@mat R)) J (Rv y : list R) : list R :=
  match W with None => vplus (mapply J y) Rv | Some W => mapply W (vplus (mapply J y) Rv) end.

Lemma gn_system_shapes N m (Rv : list R) W J : wf N m J -> length Rv = N ->
  (forall W', W = Some W' -> wf N N W') ->
  wf N m (fst (gn_system Rv W J)) /\ length (snd (gn_system Rv W J)) = N /\
  forall y, length y = m ->
    vminus (mapply (fst (gn_system Rv W J)) y) (snd (gn_system Rv W J)) = wresid W J Rv y.
Proof.
  intros HJ HR HW. destruct W as [W|]; cbn [gn_system fst snd wresid].
  - specialize (HW W eq_refl). split; [eauto with wf|]. split.
    + now apply (length_mapply N N), wf_mscale.
    + intros y Hy. rewrite (mapply_mneg N N) by assumption.
      rewrite vminus_vneg by (rewrite (length_mapply N m), (length_mapply N N); eauto with wf).
      rewrite (mapply_mmul N N m) by assumption.
      symmetry. apply (mapply_vplus N N); [assumption | now apply (length_mapply N m) | assumption].
  - split; [assumption|]. split; [now rewrite length_vneg|].
    intros y Hy. apply vminus_vneg. now rewrite (length_mapply N m).
Qed.

Section GNStep.
Variable corr : cid -> @tensor R -> @mat R -> @tensor R * @mat R.
Variable gexp : nat -> list R -> list R.
Variable solver : @mat R -> list R -> option (list R).

(* a GN step that returns: the step vector has one entry per column and minimises the weighted linearised
   residual |W (J y + R)|^2 (|J y + R|^2 without weight) over ALL y *)
Lemma gn_step_minimises (pb : @problem R) o Rv W J N :
  (forall A b x, solver A b = Some x -> mapply (mtr A) (mapply A x) = mapply (mtr A) b) ->
  gn_step corr gexp solver pb = Some o -> assemble corr pb = Some (Rv, W, J) ->
  let m := sumnat (map (@pnumel R) (filter (@preq R) (pbP pb))) in
  wf N m J -> length Rv = N -> (forall W', W = Some W' -> wf N N W') ->
  length (tD o) = m /\
  (forall y, length y = m -> sqn (wresid W J Rv (tD o)) <= sqn (wresid W J Rv y)) /\
  update_parameter gexp (pbP pb) (tD o) = Some (tP o).
Proof.
  intros Hs Hg Ha m HJ HR HW.
  destruct (gn_step_system corr gexp solver pb o Hg) as (Rv' & W' & J' & Ha' & HA & Hb & HD & HU).
  rewrite Ha in Ha'. inversion Ha'; subst Rv' W' J'; clear Ha'.
  assert (HLD : length (tD o) = m) by (apply (update_returns_iff gexp); eauto).
  destruct (gn_system_shapes N m Rv W J HJ HR HW) as (HwA & HLb & Hres).
  assert (EA : tA o = fst (gn_system Rv W J)) by (rewrite HA; now destruct W).
  assert (Eb : tb o = snd (gn_system Rv W J)) by (rewrite Hb; now destruct W).
  split; [exact HLD|]. split; [|exact HU].
  intros y Hy. rewrite <- (Hres y Hy), <- (Hres (tD o) HLD), <- EA, <- Eb.
  apply (normal_eq_minimises N m); try assumption; try (now rewrite EA); try (now rewrite Eb).
  now apply Hs.
Qed.
End GNStep.

End LeastSquares.
